"""C07 variable table closed and de-duplicated - see DESIGN.md section 4 (C07)."""
import ast

from .common import Ctx, Finding, Result, need, term, P, TRUSTED_LOGGING
from ..index import norm
from .. import paths

VP = "deep.processor.variable_processor"
VSP = "deep.processor.variable_set_processor.VariableSetProcessor"
VCP = "deep.processor.variable_set_processor.VariableCacheProvider"
VID = "deep.api.tracepoint.eventsnapshot.VariableId"


def run(ctx: Ctx, tier: str) -> Result:
    res = Result("C07")
    res.explanation = (
        "Closure rules of the variable table: every VariableId gets its id from the identity cache keyed by "
        "str(id(V)) of the same value V; a freshly issued id is followed on every path by the table entry for it, "
        "with no unguarded may-raise step in between; children are attached only to ids whose entry exists; ids are "
        "derived from the size of a grow-only cache (who-may-write rule) so two objects never share one; the "
        "cache-hit test precedes id issue and stops descent (cycles terminate); an Optional id returned by the cache "
        "is tested for None before it becomes a reference (contradiction rule: one caller tests it); a table entry "
        "is never deleted while the cache can still hand out its id.")
    res.trusted = [TRUSTED_LOGGING, "id(obj) is unique among simultaneously live objects"]
    res.not_decided = ["object<->id bijection when CPython reuses id() of temporaries created during collection (runtime lifetimes)"]
    for rid, text in (("C07.ID", "reference ids come from the identity cache of the same value"),
                      ("C07.ENTRY", "issued id is always followed by its table entry"),
                      ("C07.CHILD", "children attached only to recorded ids"),
                      ("C07.INJECT", "ids from the size of a grow-only cache"),
                      ("C07.CYCLE", "cache hit tested before issue; hit stops descent"),
                      ("C07.OPTIONAL", "Optional id from the cache tested before use as a reference"),
                      ("C07.DELETE", "no table entry deleted while its id stays in the cache"),
                      ("C07.MERGE", "watch/capture tables are merged into the snapshot's table")):
        res.rule(rid, text)
    p, t, g = ctx.prog, ctx.types, ctx.guards
    pv = p.func(VP + ".process_variable")
    coll, node = P(pv, 0), P(pv, 1)
    vid_cls = p.cls(VID)

    # ---------------- ID
    ctors = [c for c in t.calls_in(pv) if vid_cls in t.resolve_call(c, pv).ctor]
    res.floor("VariableId constructions in process_variable", len(ctors), 2)
    hid = "str(id(%s.value))" % node
    for c in ctors:
        b = t.bind_args(vid_cls.lookup("__init__"), c)
        v = ctx.expand.expand(b["vid"], pv) if "vid" in b else []
        n_ = ctx.expand.expand(b["name"], pv) if "name" in b else []
        ok = len(v) == 1 and v[0] in ("%s.check_id(%s)" % (coll, hid), "%s.new_var_id(%s)" % (coll, hid)) and n_ == ["%s.name" % node]
        if ok:
            res.ok("C07.ID", {"VariableId": v[0], "name": n_[0]})
        else:
            res.fail(Finding("C07.ID", pv.qname, c, pv.loc(c), "the reference's id is not the cache id of the value it names (id %s, name %s)" % (v, n_)))
    var_cls = p.cls("deep.api.tracepoint.eventsnapshot.Variable")
    vc = [c for c in t.calls_in(pv) if var_cls in t.resolve_call(c, pv).ctor]
    need(len(vc) == 1, "process_variable: Variable construction not found")
    hb = t.bind_args(var_cls.lookup("__init__"), vc[0]).get("var_hash")
    if hb is not None and ctx.expand.expand(hb, pv) == [hid]:
        res.ok("C07.ID", {"Variable.hash": hid})
    else:
        res.fail(Finding("C07.ID", pv.qname, vc[0], pv.loc(vc[0]), "the table entry's identity hash is not str(id(value)) of the recorded value"))

    # ---------------- ENTRY
    news = [c for c in t.calls_in(pv) if isinstance(c.func, ast.Attribute) and c.func.attr == "new_var_id"]
    apps = [c for c in t.calls_in(pv) if isinstance(c.func, ast.Attribute) and c.func.attr == "append_variable"]
    need(len(news) == 1 and len(apps) == 1, "process_variable: new_var_id / append_variable not found once each")
    new_name = norm(paths.stmt_of(p, news[0]).targets[0]) if isinstance(paths.stmt_of(p, news[0]), ast.Assign) else None
    if new_name and apps[0].args and norm(apps[0].args[0]) == new_name and paths.dominates(p, news[0], apps[0], pv) \
            and not paths.conditions(p, apps[0], pv)[len(paths.conditions(p, news[0], pv)):]:
        res.ok("C07.ENTRY", {"issued id appended": norm(apps[0])})
    else:
        res.fail(Finding("C07.ENTRY", pv.qname, apps[0], pv.loc(apps[0]), "the id issued by new_var_id is not unconditionally followed by append_variable(<that id>, ...)"))
    lo, hi = news[0].lineno, apps[0].lineno
    between = [s for s in g.sites(pv) if lo < getattr(s.node, "lineno", 0) <= hi and s.node is not apps[0]]
    bad = [(s, e) for s in between for e in [g.site_escapes(s, pv)] if e]
    if not bad:
        res.ok("C07.ENTRY", {"no unguarded may-raise step between issue and entry": len(between)})
    for s, e in bad[:3]:
        tok = sorted(e)[0]
        res.fail(Finding("C07.ENTRY", pv.qname, s.node, pv.loc(s.node),
                         "%s can be raised after the id was issued and before its table entry exists: the id stays in the cache and every "
                         "later reference to that object dangles" % tok, path=g.fmt_chain(e[tok])))
    rets = [r for r in t.nodes_in(pv, ast.Return)]
    vsp = p.cls(VSP)
    def _tbl(e, f_):
        """text of the table expression, a local alias of it (`lookup = self.__var_lookup`) read through"""
        if isinstance(e, ast.Name):
            lb_ = t.local_bindings(f_, e.id)
            if len(lb_) == 1 and lb_[0][0] == "assign" and lb_[0][1][2] is None and lb_[0][1][1] is not None:
                return norm(lb_[0][1][1])
        return norm(e)
    av = vsp.lookup("append_variable")
    st = [n for n in t.nodes_in(av, ast.Assign) if isinstance(n.targets[0], ast.Subscript)]
    uncond = len(st) == 1 and not paths.conditions(p, st[0], av) and not paths.enclosing_loops(p, st[0], av) and ctx.guards.catching_try(st[0], av, "Exception") is None
    if len(st) == 1 and not uncond:
        res.fail(Finding("C07.ENTRY", av.qname, st[0], av.loc(st[0]), "append_variable stores the entry only when `%s`: an id that was issued (and stays in the identity cache) is left without "
                         "its entry, and every reference to that object - from its parent, a frame, a watch - points at nothing" % (
                             " and ".join(("" if pol else "not ") + norm(c_) for c_, pol in paths.conditions(p, st[0], av))[:80] or "no exception occurs")))
    elif len(st) == 1 and norm(st[0].targets[0].slice) == av.params[1] and norm(st[0].value) == av.params[2] and "var_lookup" in _tbl(st[0].targets[0].value, av):
        res.ok("C07.ENTRY", {"append_variable": norm(st[0])})
    else:
        res.fail(Finding("C07.ENTRY", av.qname, "<lookup[var_id] = variable>", av.loc(), "append_variable does not store the variable under its id in the table"))

    # ---------------- CHILD
    sf = p.func(VSP + ".search_function")
    pc = p.func(VP + ".process_child_nodes")
    pcc = [c for c in t.calls_in(sf) if pc in t.resolve_call(c, sf).repo]
    need(len(pcc) == 1, "search_function: process_child_nodes call not found")
    conds = paths.conditions(p, pcc[0], sf)
    okc = any(pol and norm(c).endswith(".process_children") for c, pol in conds)
    true_rets = []
    for r in rets:
        if isinstance(r.value, ast.Call):
            kw = {k.arg: k.value for k in r.value.keywords}
            pcv = kw.get("process_children") or (r.value.args[1] if len(r.value.args) > 1 else None)
            if pcv is None or (isinstance(pcv, ast.Constant) and pcv.value is True):
                true_rets.append(r)
    ok_dom = true_rets and all(paths.dominates(p, apps[0], r, pv) for r in true_rets)
    parent_arg = ctx.expand.expand(pcc[0].args[1], sf) if len(pcc[0].args) > 1 else []
    ok_parent = len(parent_arg) == 1 and parent_arg[0].endswith("variable_id._vid") or (parent_arg and parent_arg[0].endswith("._vid"))
    if okc and ok_dom and ok_parent:
        res.ok("C07.CHILD", {"children only for ids whose entry was appended": parent_arg[0]})
    else:
        res.fail(Finding("C07.CHILD", sf.qname, pcc[0], sf.loc(pcc[0]),
                         "children may be attached to an id without a table entry (process_children guard %s, entry dominates `process_children=True` return %s, parent id %s)" % (okc, bool(ok_dom), parent_arg)))
    ach = vsp.lookup("append_child")
    sub = [n for n in t.nodes_in(ach, ast.Subscript) if isinstance(n.ctx, ast.Load)]
    if sub and "var_lookup" in _tbl(sub[0].value, ach) and norm(sub[0].slice) == ach.params[1] and \
            any(isinstance(c.func, ast.Attribute) and c.func.attr == "append" and c.args and norm(c.args[0]) == ach.params[2] for c in t.calls_in(ach)):
        res.ok("C07.CHILD", {"append_child": "lookup[parent].children.append(child)"})
    else:
        res.fail(Finding("C07.CHILD", ach.qname, "<lookup[parent].children.append(child)>", ach.loc(), "append_child does not attach the child to the parent's table entry"))

    # ---------------- INJECT
    cache = p.cls(VCP)
    nv = cache.lookup("new_var_id")
    idtxt = None
    for r in t.nodes_in(nv, ast.Return):
        idtxt = ctx.expand.expand(r.value, nv)
    from .common import identity_cache_field
    cfield = identity_cache_field(ctx)
    if idtxt and len(idtxt) == 1 and idtxt[0] in ("str(len(@self.%s) + 1)" % cfield, "str(1 + len(@self.%s))" % cfield):
        res.ok("C07.INJECT", {"new id": idtxt[0]})
    else:
        res.fail(Finding("C07.INJECT", nv.qname, "<new id>", nv.loc(), "new ids are not derived as size-of-cache + 1: %s" % idtxt))
    stores = [n for n in t.nodes_in(nv, ast.Assign) if isinstance(n.targets[0], ast.Subscript) and ctx.expand.expand(n.targets[0].value, nv) == ["@self.%s" % cfield]]
    if len(stores) == 1 and norm(stores[0].targets[0].slice) == nv.params[1]:
        res.ok("C07.INJECT", {"cache[identity] = new id": True})
    else:
        res.fail(Finding("C07.INJECT", nv.qname, "<cache[identity] = id>", nv.loc(), "new_var_id does not record the identity -> id mapping"))
    shrink = []
    for f in p.functions.values():
        for n in t.nodes_in(f):
            txt = None
            if isinstance(n, ast.Delete):
                txt = " ".join(norm(x) for x in n.targets)
            elif isinstance(n, ast.Call) and isinstance(n.func, ast.Attribute) and n.func.attr in ("pop", "popitem", "clear"):
                txt = norm(n.func.value)
            elif isinstance(n, ast.Assign) and f.name != "__init__":
                txt = " ".join(norm(x) for x in n.targets if isinstance(x, ast.Attribute))
            if txt and (("__" + cfield.split("__")[-1]) in txt) and f.cls is cache:
                shrink.append((f, n))
    if not shrink:
        res.ok("C07.INJECT", {"identity cache is grow-only": True})
    for f, n in shrink:
        res.fail(Finding("C07.INJECT", f.qname, n, f.loc(n), "the identity cache is shrunk/reset: ids derived from its size are handed out twice (two objects share one id)"))

    # the identity cache of an action lives as long as its snapshot: it is assigned once, in the constructor
    acx = p.cls("deep.processor.context.action_context.ActionContext")
    cache_stores = []
    for c_ in [acx] + p.subclasses.get(acx.qname, []):
        for sf, v, _ in t.field_stores(c_, "var_cache"):
            if (sf, v) not in cache_stores:
                cache_stores.append((sf, v))
    late = [(sf, v) for sf, v in cache_stores if sf.name != "__init__"]
    if cache_stores and not late:
        res.ok("C07.INJECT", {"action identity cache assigned only in the constructor": len(cache_stores)})
    for sf, v in late:
        st_ = paths.stmt_of(p, v)
        res.fail(Finding("C07.INJECT", sf.qname, st_, sf.loc(st_),
                         "the action's identity cache is replaced after the snapshot was collected: a deferred capture renumbers from 1 and its "
                         "entries overwrite / duplicate the snapshot's table entries"))
    # ... and the deferred completion records the captured value with the context (and so the identity cache) that collected
    # the frames: a context made for the completing event starts numbering at 1 again
    dcb = p.cls("deep.processor.context.snapshot_action.DeferredSnapshotActionCallback")
    dproc = dcb.lookup("process")
    dinit = dcb.lookup("__init__")
    pcv = acx.lookup("process_capture_variable")
    caps_ = [c for c in t.calls_in(dproc) if pcv in t.resolve_call(c, dproc).repo]
    for c in caps_:
        recv = c.func.value if isinstance(c.func, ast.Attribute) else None
        okr = False
        why = "its receiver `%s` is not the context kept from the triggering event" % (norm(recv) if recv is not None else "?")
        if isinstance(recv, ast.Attribute) and isinstance(recv.value, ast.Name) and recv.value.id == "self":
            st_ = [(sf, v) for sf, v, _ in t.field_stores(dcb, recv.attr)]
            if st_ and all(sf is dinit and isinstance(v, ast.Name) and v.id in dinit.params for sf, v in st_):
                pn_ = st_[0][1].id
                sites = [(f_, k) for f_ in p.functions.values() for k in t.calls_in(f_) if dcb in t.resolve_call(k, f_).ctor]
                args_ = [ctx.expand.expand(t.bind_args(dinit, k).get(pn_), f_) for f_, k in sites if t.bind_args(dinit, k).get(pn_) is not None]
                # created by the snapshot action (or its result) with the action context itself
                okr = bool(args_) and all(a and all(x in ("@self", "@self.action_context", "@self._action_context") or x.endswith(".action_context") for x in a) for a in args_)
                why = "the callback is created with %s for its context" % args_
        if okr:
            res.ok("C07.INJECT", {"deferred capture recorded with the collecting context": dproc.loc(c)})
        else:
            res.fail(Finding("C07.INJECT", dproc.qname, c, dproc.loc(c), "the deferred capture is recorded with another context than the one that collected the frames (%s): its identity "
                             "cache is empty, ids start at 1 again and the captured value's entries overwrite / duplicate the snapshot's" % why))
    if not caps_:
        res.fail(Finding("C07.INJECT", dproc.qname, "<process_capture_variable(event, arg)>", dproc.loc(), "the deferred completion does not record the captured value through the action context"))
    # a table filled by an evaluation that issued ids must be handed on (its ids stay in the cache)
    for fn in ("eval_watch", "process_capture_variable"):
        f_ = acx.lookup(fn)
        pvc = [c for c in t.calls_in(f_) if any(x.qname == VSP + ".process_variable" for x in t.resolve_call(c, f_).repo)]
        if len(pvc) != 1:
            res.fail(Finding("C07.ENTRY", f_.qname, "<process_variable>", f_.loc(), "%s evaluates its value %d times" % (fn, len(pvc))))
            continue
        st_ = paths.stmt_of(p, pvc[0])
        vid_name = norm(st_.targets[0].elts[0]) if isinstance(st_, ast.Assign) and isinstance(st_.targets[0], ast.Tuple) else None
        proc = norm(pvc[0].func.value)
        for r in t.nodes_in(f_, ast.Return):
            if not (paths.dominates(p, st_, r, f_) and r.lineno > st_.lineno):
                continue
            if g.enclosing_tries(r, f_) != g.enclosing_tries(pvc[0], f_):
                continue
            conds = paths.conditions(p, r, f_)
            nothing_recorded = any(pol and vid_name and norm(c) == "%s.vid is None" % vid_name for c, pol in conds)
            second = r.value.elts[1] if isinstance(r.value, ast.Tuple) and len(r.value.elts) == 3 else None
            if nothing_recorded or (second is not None and norm(second) == "%s.var_lookup" % proc):
                res.ok("C07.ENTRY", {fn: "returns the table of its evaluation", "at": f_.loc(r)})
            else:
                res.fail(Finding("C07.ENTRY", f_.qname, r, f_.loc(r),
                                 "%s returns `%s` instead of the table its evaluation filled although the ids it issued stay in the action's "
                                 "identity cache: a later watch/capture reaching one of those objects refers to an id with no entry" % (
                                     fn, norm(second) if second is not None else norm(r.value))))

    # ---------------- CYCLE
    chk = [c for c in t.calls_in(pv) if isinstance(c.func, ast.Attribute) and c.func.attr == "check_id"]
    need(len(chk) == 1, "process_variable: check_id call not found")
    hit_name = norm(paths.stmt_of(p, chk[0]).targets[0]) if isinstance(paths.stmt_of(p, chk[0]), ast.Assign) else None
    okc = False
    for test, pol in paths.conditions(p, news[0], pv):
        if hit_name and norm(test) == "%s is not None" % hit_name and not pol:
            okc = True
        if hit_name and norm(test) == "%s is None" % hit_name and pol:
            okc = True
    hit_rets = [r for r in rets if any(hit_name and norm(c) == "%s is not None" % hit_name and pol for c, pol in paths.conditions(p, r, pv))]
    stops = hit_rets and all(any(k.arg == "process_children" and isinstance(k.value, ast.Constant) and k.value.value is False for k in r.value.keywords)
                             for r in hit_rets if isinstance(r.value, ast.Call))
    if okc and stops and paths.dominates(p, chk[0], news[0], pv):
        res.ok("C07.CYCLE", {"cache hit tested before issue, returns process_children=False": True})
    else:
        res.fail(Finding("C07.CYCLE", pv.qname, chk[0], pv.loc(chk[0]),
                         "an already recorded object is not turned into a back-reference before a new id is issued (hit test %s, stops descent %s): "
                         "shared/cyclic data is recorded repeatedly" % (okc, bool(stops))))

    # every id put into a VariableId is an id of the identity cache (new_var_id / check_id): the only "no entry" value
    # the readers test for is None
    vid_cls = p.cls("deep.api.tracepoint.eventsnapshot.VariableId")
    nvid = 0
    for f in p.functions.values():
        if not f.module.name.startswith("deep.processor"):
            continue
        for c in t.calls_in(f):
            if vid_cls not in t.resolve_call(c, f).ctor or not c.args:
                continue
            nvid += 1
            src = ctx.expand.expand(c.args[0], f)
            okid = bool(src) and all(x == "None" or ".check_id(" in x or ".new_var_id(" in x or x.endswith(".vid") or x.endswith("._vid")
                                     or ("." + cfield + "[") in x or ("." + cfield + ".get(") in x for x in src)
            # an id picked out of a list by position needs the list to be non-empty: when the budget is exhausted nothing was
            # recorded, and an IndexError here takes the whole (deferred) snapshot with it instead of yielding `not recorded`
            picks = [n for n in ast.walk(c.args[0]) if isinstance(n, ast.Subscript) and isinstance(n.slice, ast.Constant) and isinstance(n.slice.value, int)
                     and isinstance(n.value, (ast.Name, ast.Attribute))]
            unguarded = [n for n in picks if not any(norm(n.value) in norm(c_) for c_, _pol in paths.conditions(p, paths.stmt_of(p, c), f))
                         and ctx.guards.catching_try(c, f, "LookupError") is None]
            if unguarded:
                res.fail(Finding("C07.OPTIONAL", f.qname, unguarded[0], f.loc(unguarded[0]), "the id of the reference is taken from `%s` without a test that the list holds anything: when "
                                 "the variable budget was exhausted before the value nothing was recorded, the lookup raises and the snapshot being completed is lost "
                                 "(the identity cache answers None for `not recorded`)" % norm(unguarded[0])))
                continue
            # `not recorded` (a literal None id) is an answer for a value nothing was recorded of: given after the search ran, it
            # disowns entries that were recorded (their ids stay in the identity cache, the caller drops the table part)
            if isinstance(c.args[0], ast.Constant) and c.args[0].value is None:
                searches = [c2 for c2 in t.calls_in(f) if any(g_.name in ("breadth_first_search", "process_variable") for g_ in t.resolve_call(c2, f).repo)
                            and c2.lineno < c.lineno and paths.dominates(p, c2, c, f)]
                if searches:
                    res.fail(Finding("C07.OPTIONAL", f.qname, c, f.loc(c), "`%s` answers `not recorded` after `%s` has run: whatever the search recorded before the budget ran out keeps "
                                     "its id in the identity cache while the caller drops its entries - a later reference to one of those objects points at no entry" % (
                                         norm(c)[:40], norm(searches[0])[:50])))
                    continue
            if okid:
                res.ok("C07.OPTIONAL", {"VariableId id": src[0][:70], "in": f.qname})
            else:
                res.fail(Finding("C07.OPTIONAL", f.qname, c, f.loc(c), "a variable reference is built with the id %s, which is neither an id of the identity cache nor None: "
                                 "readers only recognise None as `not recorded`, so the reference points at no entry" % src))
    res.floor("VariableId constructions in the collector", nvid, 4)
    # a table entry starts with a list of its own for its children
    var_cls = p.cls("deep.api.tracepoint.eventsnapshot.Variable")
    for f in p.functions.values():
        if not f.module.name.startswith("deep.processor"):
            continue
        for c in t.calls_in(f):
            if var_cls not in t.resolve_call(c, f).ctor:
                continue
            ch = t.bind_args(var_cls.lookup("__init__"), c).get("children")
            alts = ctx.expand.expand_nodes(ch, f) if ch is not None else []
            if alts and all(isinstance(a, ast.List) and not a.elts or (isinstance(a, ast.Call) and norm(a.func) == "list" and not a.args) for a in alts):
                res.ok("C07.CHILD", {"fresh children list per entry": f.loc(c)})
            else:
                res.fail(Finding("C07.CHILD", f.qname, c, f.loc(c), "a table entry is created with a children list that is not its own (%s): children recorded for one value show up "
                                 "under every value sharing the list, in this and in later snapshots" % [norm(a)[:40] for a in alts]))

    # the collector answers `has this object been recorded` with the identity cache's answer and nothing else: the cache is
    # shared by the frame collection, the watches and the captures of one snapshot, the tables are not (a second opinion
    # based on the table at hand makes a recorded object be recorded again - under an id that is already taken)
    vspc = p.cls("deep.processor.variable_set_processor.VariableSetProcessor")
    for mname in ("check_id", "new_var_id"):
        wf = vspc.lookup(mname)
        if wf is None:
            continue
        rets_ = [r for r in t.nodes_in(wf, ast.Return)]
        fwd = [r for r in rets_ if r.value is not None and isinstance(r.value, ast.Call) and isinstance(r.value.func, ast.Attribute) and r.value.func.attr == mname
               and len(r.value.args) == 1 and norm(r.value.args[0]) == wf.params[1]]
        alt_ = [r for r in rets_ if r not in fwd]
        if len(fwd) == 1 and isinstance(alt_, list) and not alt_ and not paths.conditions(p, fwd[0], wf):
            res.ok("C07.INJECT", {"the collector's %s is the cache's answer" % mname: norm(fwd[0].value)[:60]})
        elif rets_ and all(r.value is not None and isinstance(r.value, ast.Name) for r in rets_) and len(rets_) == 1 and not list(t.nodes_in(wf, ast.If)):
            res.ok("C07.INJECT", {"the collector's %s is the cache's answer (through a local)" % mname: norm(rets_[0].value)})
        else:
            bad_ = (alt_ or rets_ or [wf.node])[0]
            res.fail(Finding("C07.INJECT", wf.qname, bad_, wf.loc(bad_) if bad_ is not wf.node else wf.loc(), "the collector's %s does not simply hand on the identity cache's answer (`%s`): "
                             "an object the snapshot already holds is taken for new, recorded again and given an id that is in use" % (mname, norm(bad_)[:60])))
    # ---------------- OPTIONAL
    checkers = [f for f in p.functions.values() if f.name == "check_id" and f.module.name.startswith("deep.processor")]
    nopt = 0
    for f in p.functions.values():
        if not f.module.name.startswith("deep.processor"):
            continue
        for c in t.calls_in(f):
            if not (isinstance(c.func, ast.Attribute) and c.func.attr == "check_id"):
                continue
            st_ = paths.stmt_of(p, c)
            if not (isinstance(st_, ast.Assign) and isinstance(st_.targets[0], ast.Name)):
                continue
            name = st_.targets[0].id
            for u in t.nodes_in(f, ast.Call):
                if vid_cls in t.resolve_call(u, f).ctor and u.args and norm(u.args[0]) == name:
                    nopt += 1
                    conds = paths.conditions(p, u, f)
                    tested = any((norm(cc) == "%s is not None" % name and pol) or (norm(cc) == "%s is None" % name and not pol) for cc, pol in conds)
                    if tested:
                        res.ok("C07.OPTIONAL", {"function": f.qname, "tested": "%s is not None" % name})
                    else:
                        # the reference may be built with None when the consumer tests the id afterwards
                        users_test = later_none_test(ctx, f, u)
                        if users_test:
                            res.ok("C07.OPTIONAL", {"function": f.qname, "tested by every caller": users_test})
                        else:
                            res.fail(Finding("C07.OPTIONAL", f.qname, u, f.loc(u),
                                             "check_id returns None when the value was never recorded (variable budget exhausted before the root) "
                                             "but `%s` becomes a VariableId without a None test: the watch/capture result points to no table entry" % name))
    res.floor("VariableId built from check_id results", nopt, 3)

    # ---------------- DELETE
    ndel = 0
    for f in p.functions.values():
        if not f.module.name.startswith("deep.processor"):
            continue
        for n in t.nodes_in(f, ast.Delete):
            for tg_ in n.targets:
                if isinstance(tg_, ast.Subscript) and "lookup" in norm(tg_.value):
                    ndel += 1
                    res.fail(Finding("C07.DELETE", f.qname, "<remove %s[%s]>" % (norm(tg_.value), norm(tg_.slice)), f.loc(n),
                                     "a table entry is deleted while the identity cache keeps handing out its id: a later hit on the same object "
                                     "(e.g. a watch `locals()`) yields a reference with no entry"))
        for n in t.calls_in(f):
            if isinstance(n.func, ast.Attribute) and n.func.attr in ("pop", "popitem", "clear", "__delitem__") and "lookup" in norm(n.func.value).lower():
                ndel += 1
                what_ = "<remove %s[%s]>" % (norm(n.func.value), norm(n.args[0])) if n.func.attr in ("pop", "__delitem__") and n.args else n
                res.fail(Finding("C07.DELETE", f.qname, what_, f.loc(n),
                                 "`%s` removes entries from a variable table while the identity cache keeps handing out their ids: every other reference "
                                 "to the same object (an alias, a child of a container, a watch result) is left pointing at no entry" % norm(n)[:60]))
    if ndel == 0:
        res.ok("C07.DELETE", {"no deletion from a snapshot table": True})

    # ---------------- MERGE
    snap = p.func("deep.processor.context.snapshot_action.SnapshotActionContext._process_action")
    ew = [c for c in t.calls_in(snap) if any(x.name in ("eval_watch", "process_capture_variable", "process_log") for x in t.resolve_call(c, snap).repo)]
    res.floor("watch/capture/log evaluations in the snapshot action", len(ew), 3)
    for c in ew:
        st_ = paths.stmt_of(p, c)
        names = [norm(x) for x in st_.targets[0].elts] if isinstance(st_, ast.Assign) and isinstance(st_.targets[0], ast.Tuple) else []
        callee = [x.name for x in t.resolve_call(c, snap).repo][0]
        vidx = 2 if callee == "process_log" else 1
        ok = False
        if len(names) == 3:
            blk = paths.block_position(p, st_)
            sibs = getattr(blk[0], blk[1]) if blk else []
            ok = any(isinstance(x, ast.Expr) and isinstance(x.value, ast.Call) and isinstance(x.value.func, ast.Attribute)
                     and x.value.func.attr == "merge_var_lookup" and x.value.args and norm(x.value.args[0]) == names[vidx] for x in sibs)
        if ok:
            res.ok("C07.MERGE", {callee: "variables merged into the snapshot"})
        else:
            res.fail(Finding("C07.MERGE", snap.qname, c, snap.loc(c), "the variables collected by %s are not merged into the snapshot's table: its result references dangle" % callee))
    mv = p.func("deep.api.tracepoint.eventsnapshot.EventSnapshot.merge_var_lookup")
    upd = [c for c in t.calls_in(mv) if isinstance(c.func, ast.Attribute) and c.func.attr == "update" and c.args and norm(c.args[0]) == mv.params[1]]
    if upd and "_var_lookup" in norm(upd[0].func.value):
        res.ok("C07.MERGE", {"merge_var_lookup": norm(upd[0])})
    else:
        res.fail(Finding("C07.MERGE", mv.qname, "<self._var_lookup.update(lookup)>", mv.loc(), "merge_var_lookup does not add the entries to the snapshot's table"))
    from .common import borrow
    borrow(ctx, res, tier, "c06", ("C06.TOTAL",), "C07.TOTAL", "a value that cannot be rendered is recorded with a placeholder: an aborted evaluation would leave ids without entries")
    borrow(ctx, res, tier, "c06", ("C06.INDEP",), "C07.TABLE", "each snapshot has a variable table of its own, numbered by its own identity cache: tables shared between the "
           "snapshots of one event overwrite each other's ids")
    return res


def later_none_test(ctx: Ctx, f, ctor_call) -> str:
    """Every caller of f tests `.vid is None` on the returned reference before using it."""
    p, t = ctx.prog, ctx.types
    callers = [(cf, c) for cf, c in t.callers.get(t.fkey(f), []) if not t.resolve_call(c, cf).by_name]
    if not callers:
        return ""
    for cf, c in callers:
        st_ = paths.stmt_of(p, c)
        if not isinstance(st_, ast.Assign):
            return ""
        tgt = st_.targets[0]
        name = norm(tgt.elts[0]) if isinstance(tgt, ast.Tuple) else norm(tgt)
        tests = [n for n in t.nodes_in(cf, ast.Compare) if norm(n.left) == "%s.vid" % name and "None" in norm(n)] + \
                [n for n in t.nodes_in(cf, ast.Compare) if norm(n.left) == "%s.vid" % name and isinstance(n.ops[0], (ast.In, ast.NotIn))]
        # looked up with a default and the outcome tested: entry = table.pop(ref.vid, None) / table.get(ref.vid); if entry is not None
        for a_ in t.nodes_in(cf, ast.Assign):
            v_ = a_.value
            if isinstance(v_, ast.Call) and isinstance(v_.func, ast.Attribute) and v_.func.attr in ("pop", "get") and v_.args and norm(v_.args[0]) == "%s.vid" % name \
                    and (v_.func.attr == "get" or len(v_.args) == 2) and isinstance(a_.targets[0], ast.Name):
                got_ = a_.targets[0].id
                tests += [n for n in t.nodes_in(cf, ast.Compare) if norm(n.left) == got_ and "None" in norm(n)]
        if not tests:
            return ""
    return "%d callers" % len(callers)
