"""Findings, known-finding matching, evidence files and the per-run context shared by all checks."""
import json
import os
import time
from typing import Dict, List, Optional

from .index import Program, AnalysisError, norm

VERIF = os.path.dirname(os.path.dirname(os.path.abspath(__file__)))


class Finding:
    def __init__(self, rule: str, func: str, construct, loc: str, msg: str, path: Optional[str] = None):
        self.rule = rule
        self.func = func
        self.construct = norm(construct) if not isinstance(construct, str) else " ".join(construct.split())
        self.loc = loc
        self.msg = msg
        self.path = path

    @property
    def key(self):
        return (self.rule, self.func, self.construct)

    def to_json(self):
        d = {"rule": self.rule, "function": self.func, "construct": self.construct, "location": self.loc,
             "message": self.msg}
        if self.path:
            d["path"] = self.path
        return d

    def __repr__(self):
        return "%s %s %s :: %s" % (self.rule, self.loc, self.func, self.msg)


CURRENT = None   # the Result under construction (lets the runner report findings made before an analysis error)


class Result:
    """What one property check covered and found."""

    def __init__(self, pid: str):
        global CURRENT
        CURRENT = self
        self.pid = pid
        self.findings: List[Finding] = []
        self.obligations = 0
        self.discharged = 0
        self.samples: List = []
        self.analysed: Dict[str, object] = {}
        self.rules: Dict[str, Dict[str, int]] = {}
        self.not_decided: List[str] = []
        self.trusted: List[str] = []
        self.assumptions: List[str] = []
        self.explanation = ""
        self._seen = set()
        self.floor_errors: List[str] = []

    def rule(self, rid: str, text: str):
        self.rules.setdefault(rid, {"obligations": 0, "discharged": 0, "text": text})

    def ok(self, rid: str, sample=None):
        self.obligations += 1
        self.discharged += 1
        r = self.rules.setdefault(rid, {"obligations": 0, "discharged": 0, "text": ""})
        r["obligations"] += 1
        r["discharged"] += 1
        if sample is not None and len(self.samples) < 60:
            self.samples.append({"rule": rid, "obligation": sample, "status": "discharged"})

    def fail(self, finding: Finding):
        self.obligations += 1
        r = self.rules.setdefault(finding.rule, {"obligations": 0, "discharged": 0, "text": ""})
        r["obligations"] += 1
        if finding.key in self._seen:
            return
        self._seen.add(finding.key)
        self.findings.append(finding)

    def floor(self, what: str, count: int, minimum: int):
        """A rule matching fewer instances than confirmed by hand means the checker no longer sees the code."""
        self.analysed[what] = count
        if count < minimum:
            # a missing instance is a checker problem unless a violation already explains it (e.g. a call site that
            # was rewritten into a forbidden form): floors never mask findings
            self.floor_errors.append("instance floor: %s = %d < %d (anchor moved or extractor blind)" % (what, count, minimum))


def load_known() -> dict:
    path = os.path.join(VERIF, "known_findings.json")
    if not os.path.exists(path):
        return {"findings": [], "fixed": []}
    with open(path) as fh:
        return json.load(fh)


def match_known(pid: str, f: Finding, known: dict) -> Optional[dict]:
    for k in known.get("findings", []):
        if k.get("property") != pid:
            continue
        if k.get("rule") == f.rule and k.get("function") == f.func and \
                " ".join(k.get("construct", "").split()) == f.construct:
            return k
    return None


def write_evidence(res: Result, tier: str, wall: float, violations: int, known_hits: List[dict],
                   evidence_dir: str, stats: dict, selftest: Optional[dict] = None):
    os.makedirs(evidence_dir, exist_ok=True)
    samples = list(res.samples)
    for f in res.findings[:40]:
        samples.append({"rule": f.rule, "obligation": f.to_json(), "status": "undischarged"})
    if not samples:
        samples = [{"note": "no obligations sampled"}]
    cov = {
        "explanation": res.explanation,
        "obligations": res.obligations,
        "discharged": res.discharged,
        "evaluations": max(res.obligations, 1),
        "distinct_nontrivial": len({json.dumps(s, sort_keys=True, default=str) for s in samples}) if len(samples) > 1 else res.obligations,
        "rule": "one obligation per rule instance found in the source (call site, constructor argument, "
                "table row, guard); distinct by (rule, function, construct)",
        "samples": samples,
        "checker_cmd": "/venv/bin/python /verif/sa/check.py %s --tier %s" % (res.pid, tier),
        "trusted_base": res.trusted,
        "rules": res.rules,
        "analysed": res.analysed,
        "resolution": stats,
        "not_decided": res.not_decided,
        "known_findings_matched": known_hits,
        "exhaustive": True,
    }
    if selftest is not None:
        cov["selftest"] = selftest
    ev = {
        "property_id": res.pid,
        "tier": tier,
        "seed": int(os.environ.get("VERIF_SEED", "0") or 0),
        "level": "other",
        "coverage": cov,
        "assumptions": res.assumptions,
        "wall_s": round(wall, 3),
        "violations": violations,
    }
    path = os.path.join(evidence_dir, "%s.json" % res.pid)
    with open(path, "w") as fh:
        json.dump(ev, fh, indent=1, default=str)
    return path


class Ctx:
    """Engines built once per run from the current working tree."""

    def __init__(self, root: Optional[str] = None):
        from .typesys import Types
        from .guards import Guards
        t0 = time.time()
        self.prog = Program(root)
        self.types = Types(self.prog)
        self.guards = Guards(self.prog, self.types)
        self.build_s = time.time() - t0
        self._extra = {}

    @property
    def expand(self):
        if "expand" not in self._extra:
            from .origin import Expander
            self._extra["expand"] = Expander(self.prog, self.types)
        return self._extra["expand"]

    @property
    def taint(self):
        if "taint" not in self._extra:
            from .taint import Taint
            self._extra["taint"] = Taint(self.prog, self.types)
        return self._extra["taint"]

    def stats(self) -> dict:
        tot = typed = byname = unk = 0
        for fi in self.prog.functions.values():
            for c in self.types.calls_in(fi):
                tot += 1
                t = self.types.resolve_call(c, fi)
                if t.unknown or not (t.repo or t.ctor or t.ext):
                    unk += 1
                elif t.by_name:
                    byname += 1
                else:
                    typed += 1
        return {"modules": len(self.prog.modules), "classes": len(self.prog.classes),
                "functions": len(self.prog.functions), "call_sites": tot, "resolved_by_type": typed,
                "resolved_by_name": byname, "unresolved": unk, "tree_digest": self.prog.digest()}
