"""E6 - decision-table extraction and comparison.

A function whose outcome depends on its inputs only through comparisons is turned, syntactically, into an
ordered list of rows (path condition -> result expression) with locals substituted path-sensitively and
property reads / small helper calls expanded (origin.Expander). The comparison atoms found in the rows
define a finite abstract alphabet: per term the constants it is compared with plus OTHER, per compared pair
of terms {LT, EQ, GT}, per opaque boolean {T, F}. Every abstract world selects one row; the selected
results are compared with a reference table stated over the same terms. No repo code is executed: the only
operations performed are comparisons between abstract values of the alphabet.
"""
import ast
import itertools
from typing import Callable, Dict, List, Optional, Tuple

from .index import AnalysisError, FuncInfo, norm
from .origin import Expander

MAX_PATHS = 4000
MAX_WORLDS = 200000


class Other:
    """Abstract value 'none of the constants this term is compared with'."""

    def __init__(self, term, truthy=True):
        self.term = term
        self.truthy = truthy

    def __repr__(self):
        return "OTHER" if self.truthy else "OTHER_FALSY"

    def __eq__(self, o):
        return self is o

    def __hash__(self):
        return id(self)


class Sym:
    """Opaque (uncompared) value with canonical text."""

    def __init__(self, text):
        self.text = text

    def __repr__(self):
        return self.text

    def __eq__(self, o):
        return isinstance(o, Sym) and o.text == self.text

    def __hash__(self):
        return hash(self.text)


class Err(Exception):
    def __init__(self, what):
        self.what = what


class Row:
    def __init__(self, conds, kind, result, fi, node):
        self.conds: List[Tuple[ast.expr, bool]] = conds
        self.kind = kind            # 'return' | 'raise' | 'fall'
        self.result: Optional[ast.expr] = result
        self.fi = fi
        self.node = node

    def __repr__(self):
        cs = " and ".join(("" if pol else "not ") + "(" + norm(c) + ")" for c, pol in self.conds) or "True"
        return "%s -> %s %s" % (cs, self.kind, norm(self.result) if self.result is not None else "")


class Table:
    def __init__(self, ctx, fi: FuncInfo, inline_depth: int = 3, body: Optional[List[ast.stmt]] = None,
                 env0: Optional[Dict[str, ast.expr]] = None):
        self.ctx = ctx
        self.fi = fi
        self.ex: Expander = ctx.expand
        self.inline_depth = inline_depth
        self._rows_memo: Dict[str, List[Row]] = {}
        self._synthetic = []
        self._body = body     # analyse this statement list of fi (e.g. an exception handler's body) instead of the whole body
        seed: Dict[str, ast.expr] = {}
        a = fi.node.args
        for prm in a.posonlyargs + a.args + a.kwonlyargs:
            # parameters start as themselves; later re-assignments are tracked path-sensitively
            seed[prm.arg] = ast.Name(id="@" + prm.arg, ctx=ast.Load())
        seed.update(env0 or {})
        self.rows: List[Row] = self.rows_of(fi, seed)
        self.vars = Vars()
        self._collect_vars()

    # ------------------------------------------------------------------ rows
    def canon(self, e: ast.expr, fi: FuncInfo, env) -> ast.expr:
        env2 = {k: [v] for k, v in env.items()}
        alts = self.ex._ex(e, fi, env2, self.ex.max_depth, frozenset())
        texts = []
        uniq = []
        for a in alts:
            s = norm(a)
            if s not in texts:
                texts.append(s)
                uniq.append(a)
        uniq = [self._fold_class_consts(u, fi) for u in uniq]
        if len(uniq) == 1:
            return uniq[0]
        return ast.Call(func=ast.Name(id="<alt>", ctx=ast.Load()), args=uniq, keywords=[])

    def _fold_class_consts(self, e, fi):
        """`self.X` / `Cls.X` where X is a class-level constant collection of literals (assigned in the class body only)
        reads like the literal written in place."""
        prog, types = self.ctx.prog, self.ctx.types
        tbl = self

        def const_coll(v):
            if isinstance(v, ast.Call) and isinstance(v.func, ast.Name) and v.func.id in ("frozenset", "tuple", "set", "list") and len(v.args) == 1 and not v.keywords:
                v = v.args[0]
            if isinstance(v, (ast.Tuple, ast.List, ast.Set)) and v.elts and all(isinstance(x, ast.Constant) for x in v.elts):
                return ast.Tuple(elts=list(v.elts), ctx=ast.Load())
            return None

        class F(ast.NodeTransformer):
            def visit_Attribute(self, n):
                self.generic_visit(n)
                owners = []
                if isinstance(n.value, ast.Name) and n.value.id in ("@self", "@cls", "self", "cls") and fi.cls is not None:
                    owners = list(fi.cls.mro)
                else:
                    c = prog.classes.get(norm(n.value))
                    if c is not None:
                        owners = list(c.mro)
                for c in owners:
                    if n.attr in c.class_attrs:
                        if types.field_stores(c, n.attr):
                            return n
                        lit = const_coll(c.class_attrs[n.attr])
                        return ast.copy_location(lit, n) if lit is not None else n
                return n
        if not any(isinstance(x, ast.Attribute) for x in ast.walk(e)):
            return e
        import copy
        return F().visit(copy.deepcopy(e))

    def _inline_return(self, s: ast.Return, fi: FuncInfo, env, conds, depth) -> Optional[List[Row]]:
        """`return helper(...)` where helper is a small multi-return repo function: splice the helper's rows in."""
        if depth >= self.inline_depth or not isinstance(s.value, ast.Call):
            return None
        fv = s.value.func.value if isinstance(s.value.func, ast.Attribute) else None
        if isinstance(fv, ast.Call) and isinstance(fv.func, ast.Name) and fv.func.id == "super":
            return None      # delegation to the base implementation is kept as such
        tg = self.ctx.types.resolve_call(s.value, fi)
        if len(tg.repo) != 1 or tg.ctor or tg.ext or tg.by_name or tg.unknown:
            return None
        g = tg.repo[0]
        rets = [n for n in self.ctx.types.nodes_in(g, ast.Return)]
        if len(rets) < 2 or g.is_abstract or g.is_wrapped or list(self.ctx.types.nodes_in(g, (ast.For, ast.While, ast.Try))):
            return None
        env2: Dict[str, ast.expr] = {}
        for pname, arg in self.ctx.types.bind_args(g, s.value).items():
            env2[pname] = self.canon(arg, fi, env)
        if g.cls is not None and not g.is_static and g.params and isinstance(s.value.func, ast.Attribute):
            env2[g.params[0]] = self.canon(s.value.func.value, fi, env)
        for pn in g.params:
            env2.setdefault(pn, ast.Name(id="<unbound:%s>" % pn, ctx=ast.Load()))
        sub = self.rows_of(g, env2, depth + 1)
        return [Row(list(conds) + r.conds, r.kind, r.result, fi, s) for r in sub]

    def rows_of(self, fi: FuncInfo, env0: Dict[str, ast.expr], depth: int = 0) -> List[Row]:
        rows: List[Row] = []
        count = [0]

        def block(stmts, env, conds, cont):
            """Process stmts; call cont(env, conds) for each normal completion."""
            if not stmts:
                cont(env, conds)
                return
            s, rest = stmts[0], stmts[1:]
            count[0] += 1
            if count[0] > MAX_PATHS:
                raise AnalysisError("decision table of %s: too many paths" % fi.qname)
            if isinstance(s, ast.Return) and isinstance(s.value, ast.IfExp):
                # same decision as `if c: return A` / `else: return B` (lets helper calls in the branches be spliced in)
                synth = ast.If(test=s.value.test, body=[ast.Return(value=s.value.body, lineno=s.lineno, col_offset=s.col_offset)],
                               orelse=[ast.Return(value=s.value.orelse, lineno=s.lineno, col_offset=s.col_offset)],
                               lineno=s.lineno, col_offset=s.col_offset)
                self._synthetic.append(synth)
                block([synth] + rest, env, conds, cont)
                return
            if isinstance(s, ast.Return) and isinstance(s.value, ast.BoolOp) and len(s.value.values) >= 2 and isinstance(s.value.values[-1], ast.Call):
                # `return A and helper()` with a multi-return helper: the same decision as `if A: return helper()` /
                # `return False` (`A or helper()`: `if A: return True` / `return helper()`) - results are judged by their truth
                last_ = ast.Return(value=s.value.values[-1], lineno=s.lineno, col_offset=s.col_offset)
                if self._inline_return(last_, fi, env, conds, depth) is not None:
                    head_ = s.value.values[0] if len(s.value.values) == 2 else ast.BoolOp(op=s.value.op, values=list(s.value.values[:-1]))
                    is_and = isinstance(s.value.op, ast.And)
                    const_ = ast.Return(value=ast.Constant(value=not is_and), lineno=s.lineno, col_offset=s.col_offset)
                    synth = ast.If(test=head_, body=[last_ if is_and else const_], orelse=[const_ if is_and else last_],
                                   lineno=s.lineno, col_offset=s.col_offset)
                    self._synthetic.append(synth)
                    block([synth] + rest, env, conds, cont)
                    return
            if isinstance(s, ast.Return):
                inl = self._inline_return(s, fi, env, conds, depth)
                if inl is not None:
                    rows.extend(inl)
                    return
                val = self.canon(s.value, fi, env) if s.value is not None else ast.Constant(None)
                fv_ = s.value.func.value if isinstance(s.value, ast.Call) and isinstance(s.value.func, ast.Attribute) else None
                if isinstance(fv_, ast.Call) and isinstance(fv_.func, ast.Name) and fv_.func.id == "super":
                    val = s.value      # delegation to the base implementation is kept as such, however short the base is
                # `return A if c else B` is the same decision as `if c: return A` / `return B`
                stack = [(list(conds), val)]
                while stack:
                    cs, v = stack.pop(0)
                    if isinstance(v, ast.IfExp) and len(stack) < 64:
                        stack.insert(0, (cs + [(v.test, False)], v.orelse))
                        stack.insert(0, (cs + [(v.test, True)], v.body))
                    else:
                        rows.append(Row(cs, "return", v, fi, s))
                return
            if isinstance(s, ast.Raise):
                rows.append(Row(list(conds), "raise", self.canon(s.exc, fi, env) if s.exc is not None else None, fi, s))
                return
            if isinstance(s, ast.If):
                test = self.canon(s.test, fi, env)
                known = self._static_truth(test, fi)
                if known is True:
                    block(list(s.body) + rest, dict(env), conds, cont)
                    return
                if known is False:
                    block(list(s.orelse) + rest, dict(env), conds, cont)
                    return
                block(s.body, dict(env), conds + [(test, True)], lambda e, c: block(rest, e, c, cont))
                block(s.orelse, dict(env), conds + [(test, False)], lambda e, c: block(rest, e, c, cont))
                return
            if isinstance(s, (ast.Assign, ast.AnnAssign)) and isinstance(s.value, ast.IfExp) and count[0] < MAX_PATHS // 2:
                # `x = A if c else B` is the same decision as `if c: x = A` / `else: x = B`
                def mk(v):
                    if isinstance(s, ast.Assign):
                        return ast.Assign(targets=s.targets, value=v, lineno=s.lineno, col_offset=s.col_offset)
                    return ast.AnnAssign(target=s.target, annotation=s.annotation, value=v, simple=s.simple, lineno=s.lineno, col_offset=s.col_offset)
                synth = ast.If(test=s.value.test, body=[mk(s.value.body)], orelse=[mk(s.value.orelse)], lineno=s.lineno, col_offset=s.col_offset)
                self._synthetic.append(synth)
                block([synth] + rest, env, conds, cont)
                return
            if isinstance(s, ast.Assign):
                env = dict(env)
                val = self.canon(s.value, fi, env)
                for t in s.targets:
                    self._assign(t, val, env)
                block(rest, env, conds, cont)
                return
            if isinstance(s, ast.AnnAssign):
                env = dict(env)
                if s.value is not None and isinstance(s.target, ast.Name):
                    env[s.target.id] = self.canon(s.value, fi, env)
                block(rest, env, conds, cont)
                return
            if isinstance(s, ast.AugAssign):
                env = dict(env)
                if isinstance(s.target, ast.Name):
                    cur = env.get(s.target.id, ast.Name(id=s.target.id, ctx=ast.Load()))
                    env[s.target.id] = ast.BinOp(left=cur, op=s.op, right=self.canon(s.value, fi, env))
                block(rest, env, conds, cont)
                return
            if isinstance(s, (ast.With, ast.AsyncWith)):
                block(list(s.body) + rest, env, conds, cont)
                return
            if isinstance(s, ast.Try):
                # exceptions are not modelled: the body is followed, handlers are ignored (stated per use)
                block(list(s.body) + list(s.orelse) + list(s.finalbody) + rest, env, conds, cont)
                return
            if isinstance(s, (ast.For, ast.While, ast.AsyncFor)):
                # a loop that cannot leave the function and only stores into containers / fields has no part in the decision;
                # the plain names it binds are unknown afterwards
                leaves = [n for n in ast.walk(s) if isinstance(n, (ast.Return, ast.Raise, ast.Yield, ast.YieldFrom))]
                if leaves:
                    raise AnalysisError("decision table of %s: loop at line %d not understood" % (fi.qname, s.lineno))
                env = dict(env)
                for n in ast.walk(s):
                    if isinstance(n, ast.Name) and isinstance(n.ctx, ast.Store):
                        env[n.id] = ast.Name(id="<loop:%s>" % n.id, ctx=ast.Load())
                block(rest, env, conds, cont)
                return
            # Expr, Pass, Import, Delete, nested defs, ... : no influence on the decision
            block(rest, env, conds, cont)

        def fall(env, conds):
            rows.append(Row(list(conds), "fall", ast.Constant(None), fi, fi.node))

        body = [s for s in (self._body if self._body is not None else fi.node.body)
                if not (isinstance(s, ast.Expr) and isinstance(s.value, ast.Constant))]
        block(body, dict(env0), [], fall)
        return rows

    def _static_truth(self, test, fi):
        """`<freshly constructed object> is None` is False (is not None: True); everything else is unknown."""
        if isinstance(test, ast.Compare) and len(test.ops) == 1 and isinstance(test.ops[0], (ast.Is, ast.IsNot)) \
                and isinstance(test.comparators[0], ast.Constant) and test.comparators[0].value is None and isinstance(test.left, ast.Call):
            fn = test.left.func
            name = fn.id if isinstance(fn, ast.Name) else (fn.attr if isinstance(fn, ast.Attribute) else "")
            qn = norm(fn)
            is_ctor = qn in self.ctx.prog.classes or qn.endswith(".__init__") and qn[: -len(".__init__")] in self.ctx.prog.classes
            if not is_ctor and name and name[:1].isupper():
                try:
                    is_ctor = bool(self.ctx.types.resolve_call(test.left, fi).ctor)
                except Exception:
                    is_ctor = False
            if is_ctor:
                return isinstance(test.ops[0], ast.IsNot)
        return None

    def _assign(self, target, val, env):
        if isinstance(target, ast.Name):
            env[target.id] = val
        elif isinstance(target, (ast.Tuple, ast.List)):
            for i, el in enumerate(target.elts):
                if isinstance(val, (ast.Tuple, ast.List)) and i < len(val.elts):
                    self._assign(el, val.elts[i], env)
                else:
                    self._assign(el, ast.Subscript(value=val, slice=ast.Constant(i), ctx=ast.Load()), env)
        # attribute / subscript stores do not affect the local environment

    # ------------------------------------------------------------------ variable discovery
    def _collect_vars(self):
        for r in self.rows:
            for c, _ in r.conds:
                self._scan(c, boolean=True)
            if r.result is not None and self._boolish(r.result):
                self._scan(r.result, boolean=True)
            elif r.result is not None:
                self._scan_value(r.result)

    @staticmethod
    def _boolish(e) -> bool:
        if isinstance(e, (ast.Compare, ast.BoolOp)):
            return True
        if isinstance(e, ast.UnaryOp) and isinstance(e.op, ast.Not):
            return True
        if isinstance(e, ast.Constant) and isinstance(e.value, bool):
            return True
        if isinstance(e, ast.IfExp):
            return Table._boolish(e.body) and Table._boolish(e.orelse)
        return False

    def _is_const(self, e) -> bool:
        return isinstance(e, ast.Constant) or (isinstance(e, ast.UnaryOp) and isinstance(e.op, ast.USub)
                                               and isinstance(e.operand, ast.Constant))

    @staticmethod
    def _const(e):
        if isinstance(e, ast.Constant):
            return e.value
        return -e.operand.value

    def _scan_value(self, e):
        """Non-boolean expression: only conditional sub-expressions matter."""
        for n in ast.walk(e):
            if isinstance(n, ast.IfExp):
                self._scan(n.test, boolean=True)

    def _scan(self, e, boolean):
        v = self.vars
        if isinstance(e, ast.BoolOp):
            for x in e.values:
                self._scan(x, True)
            return
        if isinstance(e, ast.UnaryOp) and isinstance(e.op, ast.Not):
            self._scan(e.operand, True)
            return
        if isinstance(e, ast.IfExp):
            self._scan(e.test, True)
            self._scan(e.body, boolean)
            self._scan(e.orelse, boolean)
            return
        if isinstance(e, ast.Compare):
            left = e.left
            for op, right in zip(e.ops, e.comparators):
                self._scan_cmp(left, op, right)
                left = right
            return
        if isinstance(e, ast.Constant):
            return
        if boolean:
            for b in self._branches(e):
                if not self._is_const(b):
                    v.truth(norm(b))
            self._scan_value(e)

    def _branches(self, e) -> List[ast.expr]:
        """Leaf alternatives of a value expression after distributing conditional expressions."""
        if isinstance(e, ast.IfExp):
            return self._branches(e.body) + self._branches(e.orelse)
        return [e]

    def _scan_cmp(self, l, op, r):
        v = self.vars
        for x in (l, r):
            self._scan_value(x)
        for lb in self._branches(l):
            for rb in self._branches(r):
                self._scan_cmp1(lb, op, rb)

    def _scan_cmp1(self, l, op, r):
        v = self.vars
        lc, rc = self._is_const(l), self._is_const(r)
        if isinstance(op, (ast.In, ast.NotIn)):
            if isinstance(r, (ast.List, ast.Tuple, ast.Set)) and all(self._is_const(x) for x in r.elts):
                if not lc:
                    for x in r.elts:
                        v.enum(norm(l), self._const(x))
                return
            if isinstance(r, ast.Constant) and isinstance(r.value, (list, tuple, set, frozenset)):
                if not lc:
                    for x in r.value:
                        v.enum(norm(l), x)
                return
            v.boolean("%s in %s" % (norm(l), norm(r)))
            return
        if isinstance(op, (ast.Eq, ast.NotEq, ast.Is, ast.IsNot)):
            if lc and rc:
                return
            if rc:
                v.enum(norm(l), self._const(r))
            elif lc:
                v.enum(norm(r), self._const(l))
            else:
                v.rel(norm(l), norm(r), ordered=False)
            return
        # ordering
        if lc and rc:
            return
        if rc and isinstance(self._const(r), (int, float)):
            v.num(norm(l), self._const(r))
        elif lc and isinstance(self._const(l), (int, float)):
            v.num(norm(r), self._const(l))
        else:
            v.rel(norm(l), norm(r), ordered=True)

    # ------------------------------------------------------------------ evaluation
    def truth(self, val, w, expr=None) -> bool:
        if isinstance(val, bool):
            return val
        if isinstance(val, Other):
            return val.truthy
        if isinstance(val, Sym):
            key = val.text
            if key in w.truth:
                return w.truth[key]
            raise AnalysisError("decision table of %s: truthiness of `%s` not in the alphabet" % (self.fi.qname, key))
        if val is None:
            return False
        if isinstance(val, (int, float, str, tuple, list)):
            return bool(val)
        raise AnalysisError("cannot decide truthiness of %r" % (val,))

    def value(self, e, w):
        """Abstract value of a (non-boolean) expression in world w."""
        if self._is_const(e):
            return self._const(e)
        if isinstance(e, ast.IfExp):
            return self.value(e.body if self.truth(self.ev(e.test, w), w) else e.orelse, w)
        if isinstance(e, ast.BoolOp):
            # `a or b` / `a and b` used as value selection
            last = None
            for x in e.values:
                last = self.value(x, w)
                t = self.truth(last, w)
                if isinstance(e.op, ast.Or) and t:
                    return last
                if isinstance(e.op, ast.And) and not t:
                    return last
            return last
        text = norm(e)
        if text in w.enum:
            return w.enum[text]
        if text in w.num:
            return w.num[text]
        return Sym(text)

    def ev(self, e, w):
        """Evaluate a boolean formula (or a value used in boolean context) in world w."""
        if isinstance(e, ast.Constant):
            return e.value
        if isinstance(e, ast.BoolOp):
            last = None
            for x in e.values:
                last = self.ev(x, w)
                t = self.truth(last, w)
                if isinstance(e.op, ast.And) and not t:
                    return last
                if isinstance(e.op, ast.Or) and t:
                    return last
            return last
        if isinstance(e, ast.UnaryOp) and isinstance(e.op, ast.Not):
            return not self.truth(self.ev(e.operand, w), w)
        if isinstance(e, ast.IfExp):
            return self.ev(e.body if self.truth(self.ev(e.test, w), w) else e.orelse, w)
        if isinstance(e, ast.Compare):
            left = e.left
            for op, right in zip(e.ops, e.comparators):
                if not self.cmp(left, op, right, w):
                    return False
                left = right
            return True
        return self.value(e, w)

    def _leaf(self, e, w):
        """Resolve conditional expressions / value-selecting boolean operators down to a leaf expression."""
        while True:
            if isinstance(e, ast.IfExp):
                e = e.body if self.truth(self.ev(e.test, w), w) else e.orelse
            else:
                return e

    def cmp(self, l, op, r, w) -> bool:
        l, r = self._leaf(l, w), self._leaf(r, w)
        lt, rt = norm(l), norm(r)
        lc, rc = self._is_const(l), self._is_const(r)
        neg = isinstance(op, (ast.NotIn, ast.NotEq, ast.IsNot))
        if isinstance(op, (ast.In, ast.NotIn)):
            if isinstance(r, (ast.List, ast.Tuple, ast.Set)) and all(self._is_const(x) for x in r.elts):
                lv = self.value(l, w)
                res = any(self._eq(lv, self._const(x)) for x in r.elts)
            elif isinstance(r, ast.Constant) and isinstance(r.value, (list, tuple, set, frozenset)):
                lv = self.value(l, w)
                res = any(self._eq(lv, x) for x in r.value)
            else:
                key = "%s in %s" % (lt, rt)
                if key not in w.boolean:
                    raise AnalysisError("atom `%s` not in the alphabet" % key)
                res = w.boolean[key]
            return res != neg
        if isinstance(op, (ast.Eq, ast.NotEq, ast.Is, ast.IsNot)):
            if lc or rc or lt in w.enum and rt in w.enum and False:
                res = self._eq(self.value(l, w), self.value(r, w))
            else:
                res = w.relation(lt, rt) == "EQ"
            return res != neg
        # ordering
        if lc or rc:
            lv, rv = self.value(l, w), self.value(r, w)
            if isinstance(lv, (Sym, Other)) or isinstance(rv, (Sym, Other)) or lv is None or rv is None:
                raise AnalysisError("ordering on non-numeric abstract value: %s %s" % (lt, rt))
            a, b = lv, rv
        else:
            rel = w.relation(lt, rt)
            a, b = {"LT": (0, 1), "EQ": (0, 0), "GT": (1, 0)}[rel]
        if isinstance(op, ast.Lt):
            return a < b
        if isinstance(op, ast.LtE):
            return a <= b
        if isinstance(op, ast.Gt):
            return a > b
        if isinstance(op, ast.GtE):
            return a >= b
        raise AnalysisError("comparison operator %s not understood" % type(op).__name__)

    @staticmethod
    def _eq(a, b) -> bool:
        if isinstance(a, Other) or isinstance(b, Other):
            return a is b
        if isinstance(a, Sym) or isinstance(b, Sym):
            if isinstance(a, Sym) and isinstance(b, Sym):
                return a.text == b.text
            raise AnalysisError("equality between opaque value %r and %r not in the alphabet" % (a, b))
        if isinstance(a, bool) != isinstance(b, bool):
            return False
        return a == b

    def select(self, w) -> Row:
        for r in self.rows:
            ok = True
            for c, pol in r.conds:
                if self.truth(self.ev(c, w), w) != pol:
                    ok = False
                    break
            if ok:
                return r
        raise AnalysisError("no row of %s selected (table not exhaustive)" % self.fi.qname)

    def outcome(self, w):
        """('return', value) with value True/False for boolean results, canonical text otherwise;
        ('raise', text) ; ('fall', None)."""
        r = self.select(w)
        if r.kind != "return":
            return (r.kind, norm(r.result) if r.result is not None else None, r, r.result)
        if self._boolish(r.result):
            return ("return", bool(self.truth(self.ev(r.result, w), w)), r, None)
        node = self.resolve(r.result, w)
        if isinstance(node, ast.Constant):
            return ("return", node.value, r, node)
        return ("return", norm(node), r, node)

    def resolve(self, e, w) -> ast.expr:
        """Rewrite conditional sub-expressions of a value expression according to world w."""
        tbl = self

        class R(ast.NodeTransformer):
            def visit_IfExp(self, n):
                t = tbl.truth(tbl.ev(n.test, w), w)
                return self.visit(n.body if t else n.orelse)
        import copy
        return R().visit(copy.deepcopy(e))

    def resolve_text(self, e, w) -> str:
        return norm(self.resolve(e, w))

    # ------------------------------------------------------------------ worlds
    def worlds(self, extra: Optional["Vars"] = None):
        v = self.vars.merged(extra) if extra else self.vars
        return v.worlds()


class World:
    def __init__(self):
        self.enum: Dict[str, object] = {}
        self.num: Dict[str, object] = {}
        self.rel: Dict[Tuple[str, str], str] = {}
        self.boolean: Dict[str, bool] = {}
        self.truth: Dict[str, bool] = {}

    def relation(self, a: str, b: str) -> str:
        if (a, b) in self.rel:
            return self.rel[(a, b)]
        if (b, a) in self.rel:
            return {"LT": "GT", "GT": "LT", "EQ": "EQ", "NE": "NE"}[self.rel[(b, a)]]
        if a == b:
            return "EQ"
        raise AnalysisError("relation between `%s` and `%s` not in the alphabet" % (a, b))

    def describe(self) -> dict:
        d = {}
        d.update({k: repr(v) for k, v in self.enum.items()})
        d.update({k: repr(v) for k, v in self.num.items()})
        d.update({"%s ? %s" % k: v for k, v in self.rel.items()})
        d.update(self.boolean)
        d.update({"bool(%s)" % k: v for k, v in self.truth.items()})
        return d


class Vars:
    def __init__(self):
        self.enums: Dict[str, list] = {}
        self.nums: Dict[str, set] = {}
        self.rels: Dict[Tuple[str, str], bool] = {}
        self.booleans: List[str] = []
        self.truths: List[str] = []

    def enum(self, term, const):
        lst = self.enums.setdefault(term, [])
        if not any(type(c) is type(const) and c == const for c in lst):
            lst.append(const)

    def num(self, term, const):
        self.nums.setdefault(term, set()).add(const)

    def rel(self, a, b, ordered):
        if (b, a) in self.rels:
            a, b = b, a
        self.rels[(a, b)] = self.rels.get((a, b), False) or ordered

    def boolean(self, key):
        if key not in self.booleans:
            self.booleans.append(key)

    def truth(self, term):
        if term not in self.truths:
            self.truths.append(term)

    def merged(self, other: "Vars") -> "Vars":
        v = Vars()
        for src in (self, other):
            for k, lst in src.enums.items():
                for c in lst:
                    v.enum(k, c)
            for k, s in src.nums.items():
                for c in s:
                    v.num(k, c)
            for (a, b), o in src.rels.items():
                v.rel(a, b, o)
            for k in src.booleans:
                v.boolean(k)
            for k in src.truths:
                v.truth(k)
        return v

    def worlds(self):
        axes = []
        for term, consts in self.enums.items():
            dom = list(consts)
            if term in self.nums:
                # numeric term also compared by order: representatives around all critical points
                pts = sorted({c for c in consts if isinstance(c, (int, float)) and not isinstance(c, bool)} | self.nums[term])
                dom = [c for c in consts if not (isinstance(c, (int, float)) and not isinstance(c, bool))]
                dom += self._num_reps(pts)
            else:
                dom.append(Other(term, True))
                if term in self.truths:
                    dom.append(Other(term, False))
            axes.append(("enum", term, dom))
        for term, consts in self.nums.items():
            if term in self.enums:
                continue
            axes.append(("num", term, self._num_reps(sorted(consts))))
        for (a, b), ordered in self.rels.items():
            axes.append(("rel", (a, b), ["LT", "EQ", "GT"] if ordered else ["EQ", "LT"]))
        for k in self.booleans:
            axes.append(("bool", k, [True, False]))
        for k in self.truths:
            if k in self.enums or k in self.nums:
                continue
            axes.append(("truth", k, [True, False]))
        total = 1
        for _, _, dom in axes:
            total *= max(1, len(dom))
        if total > MAX_WORLDS:
            raise AnalysisError("abstract alphabet too large: %d worlds" % total)
        for combo in itertools.product(*[dom for _, _, dom in axes]):
            w = World()
            for (kind, key, _), val in zip(axes, combo):
                if kind == "enum":
                    w.enum[key] = val
                elif kind == "num":
                    w.num[key] = val
                elif kind == "rel":
                    w.rel[key] = val
                elif kind == "bool":
                    w.boolean[key] = val
                else:
                    w.truth[key] = val
            # truthiness of enumerated / numeric terms follows from the value
            for k in self.truths:
                if k in w.enum:
                    val = w.enum[k]
                    w.truth[k] = val.truthy if isinstance(val, Other) else bool(val)
                elif k in w.num:
                    w.truth[k] = bool(w.num[k])
            yield w

    @staticmethod
    def _num_reps(pts):
        if not pts:
            return [0]
        reps = [pts[0] - 1]
        for i, c in enumerate(pts):
            reps.append(c)
            if i + 1 < len(pts):
                nxt = pts[i + 1]
                if nxt - c > 1:
                    reps.append(c + 1)
                elif nxt - c > 0 and isinstance(c, float):
                    reps.append((c + nxt) / 2)
        reps.append(pts[-1] + 1)
        return reps


def compare(table: Table, ref_vars: Vars, ref: Callable[[World], object], limit=5):
    """Evaluate function table and reference in every abstract world; return (n_worlds, mismatches)."""
    n = 0
    bad = []
    # a truth term of the reference that the function does not test as one atom but spells out as a formula over other
    # atoms (a single-expression callee was expanded in place) is not an axis of its own: its value in a world is the
    # value of that formula there
    derived = {}
    for k in ref_vars.truths:
        if k in table.vars.truths or k in table.vars.enums or k in table.vars.nums:
            continue
        for r in table.rows:
            for c in [c_ for c_, _ in r.conds] + ([r.result] if isinstance(r.result, ast.AST) else []):
                for nd in ast.walk(c):
                    if isinstance(nd, (ast.BoolOp, ast.Compare)) and k not in derived and norm(nd) == k:
                        derived[k] = nd
    if derived:
        rv2 = Vars().merged(ref_vars)
        rv2.truths = [k for k in rv2.truths if k not in derived]
        ref_vars = rv2
    for w in table.worlds(ref_vars):
        for k, nd in derived.items():
            w.truth[k] = bool(table.truth(table.ev(nd, w), w))
        n += 1
        got = table.outcome(w)
        want = ref(w)
        ok = want(got) if callable(want) else (got[0] == "return" and got[1] == want)
        if not ok:
            if len(bad) < limit:
                bad.append((w.describe(), got[:2], "" if callable(want) else repr(want), got[2]))
    return n, bad
