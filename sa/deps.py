"""Object-sensitive value-dependence analysis (used for handle injectivity and ownership rules).

`Deps.value(expr, fi)` computes which *origin atoms* a value can depend on: parameters of the function the
query started in ('@name'), FRESH (a per-call fresh token: uuid4(), object identity, counter), MUTABLE-FRESH
(a container created by this evaluation), constants contribute nothing. Objects constructed from repo
classes are tracked as (class, {ctor parameter: value}) so that attribute/property reads on them resolve to
the dependence of exactly the constructor arguments that feed that attribute. Flow-insensitive, bounded depth.
"""
import ast
from typing import Dict, List, Optional, Set, Tuple

from .index import Program, FuncInfo, ClassInfo
from .typesys import Types

FRESH = "FRESH"
# sources of a value that is new for every call. The module-level functions of `random` are not among them: they draw from
# the generator the application seeds (random.seed(n) twice gives the same "fresh" values twice)
FRESH_SOURCES = {"uuid.uuid4", "uuid.uuid1", "secrets.token_hex", "secrets.token_bytes", "secrets.token_urlsafe", "secrets.randbits", "os.urandom",
                 "builtins.object", "itertools.count"}


class Obj:
    def __init__(self, cls: ClassInfo, params: Dict[str, "Val"], site: str):
        self.cls = cls
        self.params = params
        self.site = site


class Val:
    def __init__(self, deps: Optional[Set[str]] = None, objs: Optional[List[Obj]] = None):
        self.deps: Set[str] = set(deps or ())
        self.objs: List[Obj] = list(objs or ())

    def union(self, other: "Val") -> "Val":
        self.deps |= other.deps
        for o in other.objs:
            if o not in self.objs:
                self.objs.append(o)
        return self

    def all_deps(self, seen=None) -> Set[str]:
        seen = seen or set()
        out = set(self.deps)
        for o in self.objs:
            if id(o) in seen:
                continue
            seen.add(id(o))
            for v in o.params.values():
                out |= v.all_deps(seen)
        return out


class Deps:
    def __init__(self, prog: Program, types: Types, max_depth: int = 24):
        self.p = prog
        self.t = types
        self.max_depth = max_depth

    def value(self, e: ast.expr, fi: FuncInfo, env: Optional[Dict[str, Val]] = None, depth: int = 0, busy=frozenset()) -> Val:
        env = env if env is not None else {}
        if e is None or depth > self.max_depth:
            return Val()
        if isinstance(e, ast.Constant):
            return Val()
        if isinstance(e, ast.Name):
            if e.id in env:
                return env[e.id]
            f = fi
            while f is not None:
                binds = self.t.local_bindings(f, e.id)
                if binds:
                    key = (self.t.fkey(f), e.id)
                    if key in busy:
                        return Val()
                    out = Val()
                    for kind, b in binds:
                        if kind == "param":
                            out.deps.add("@" + e.id)
                        elif kind in ("assign", "for", "with"):
                            tgt, value, idx = b
                            if value is not None:
                                out.union(self.value(value, f, env if f is fi else {}, depth + 1, busy | {key}))
                        elif kind == "ann" and b.value is not None:
                            out.union(self.value(b.value, f, env if f is fi else {}, depth + 1, busy | {key}))
                    return out
                f = f.parent
            return Val()
        if isinstance(e, ast.Attribute):
            base = self.value(e.value, fi, env, depth + 1, busy)
            if base.objs:
                out = Val()
                for o in base.objs:
                    out.union(self.attr_of(o, e.attr, depth + 1, busy))
                return out
            return Val(base.deps)
        if isinstance(e, ast.Call):
            return self._call(e, fi, env, depth, busy)
        if isinstance(e, (ast.Tuple, ast.List, ast.Set)):
            out = Val()
            for x in e.elts:
                out.union(self.value(x, fi, env, depth + 1, busy))
            return out
        if isinstance(e, ast.Dict):
            out = Val()
            for x in list(e.keys) + list(e.values):
                if x is not None:
                    out.union(self.value(x, fi, env, depth + 1, busy))
            return out
        if isinstance(e, (ast.ListComp, ast.SetComp, ast.GeneratorExp)):
            out = self.value(e.elt, fi, env, depth + 1, busy)
            for g_ in e.generators:
                out.union(self.value(g_.iter, fi, env, depth + 1, busy))
            return out
        out = Val()
        for ch in ast.iter_child_nodes(e):
            if isinstance(ch, ast.expr):
                out.union(self.value(ch, fi, env, depth + 1, busy))
        return out

    def _call(self, e: ast.Call, fi, env, depth, busy) -> Val:
        tg = self.t.resolve_call(e, fi)
        if any(x in FRESH_SOURCES for x in tg.ext):
            return Val({FRESH})
        if "builtins.id" in tg.ext:
            return Val({FRESH})
        out = Val()
        if tg.ctor:
            for c in tg.ctor:
                init = c.lookup("__init__")
                params: Dict[str, Val] = {}
                if init is not None:
                    for pname, arg in self.t.bind_args(init, e).items():
                        params[pname] = self.value(arg, fi, env, depth + 1, busy)
                out.objs.append(Obj(c, params, fi.loc(e)))
            return out
        handled = False
        for g in tg.repo:
            if tg.by_name or g.is_wrapped:
                break
            key = ("call", self.t.fkey(g))
            if key in busy:
                continue
            handled = True
            env2: Dict[str, Val] = {}
            for pname, arg in self.t.bind_args(g, e).items():
                env2[pname] = self.value(arg, fi, env, depth + 1, busy)
            if g.cls is not None and not g.is_static and g.params and isinstance(e.func, ast.Attribute):
                env2[g.params[0]] = self.value(e.func.value, fi, env, depth + 1, busy)
            for r in self.t.nodes_in(g, ast.Return):
                if r.value is not None:
                    out.union(self.value(r.value, g, env2, depth + 1, busy | {key}))
        if handled:
            return out
        # external / unknown call: depends on its arguments (and receiver)
        if isinstance(e.func, ast.Attribute):
            out.union(Val(self.value(e.func.value, fi, env, depth + 1, busy).all_deps()))
        for a in list(e.args) + [k.value for k in e.keywords]:
            out.union(Val(self.value(a, fi, env, depth + 1, busy).all_deps()))
        return out

    def attr_of(self, o: Obj, attr: str, depth: int, busy) -> Val:
        """Dependence of o.<attr>: property getter, or field assigned in __init__ from ctor parameters."""
        if depth > self.max_depth:
            return Val()
        c = o.cls
        key = ("attr", c.qname, attr, id(o))
        if key in busy:
            return Val()
        busy = busy | {key}
        f = c.lookup(attr)
        if f is not None and f.is_property:
            out = Val()
            cands = [f] + [g for g in self.t.overrides(c.qname, attr) if g.is_property]
            for g in cands[:1]:
                env = {g.params[0]: Val(objs=[o])} if g.params else {}
                for r in self.t.nodes_in(g, ast.Return):
                    if r.value is not None:
                        out.union(self.value(r.value, g, env, depth + 1, busy))
            return out
        if f is not None:
            return Val()
        # field: stores `self.attr = expr` in methods of the class (attr is given unmangled or mangled)
        out = Val()
        names = {attr}
        for k in c.mro:
            names.add(k.mangle(attr))
        found = False
        for k in c.mro:
            for nm in names:
                for sf, v, _ in self.t._attr_store_index().get((k.qname, nm), []):
                    if v is None:
                        continue
                    found = True
                    if sf.name == "__init__":
                        env = dict(o.params)
                        if sf.params:
                            env[sf.params[0]] = Val(objs=[o])
                        out.union(self.value(v, sf, env, depth + 1, busy))
                    else:
                        env = {sf.params[0]: Val(objs=[o])} if sf.params else {}
                        out.union(self.value(v, sf, env, depth + 1, busy))
        if not found:
            # unknown attribute: conservatively everything the object was built from
            return Val(Val(objs=[o]).all_deps())
        return out
