#!/venv/bin/python
"""Run the checks of several (default: all) properties over one tree in one process, sharing the program
index. Used by the mutation sweep and the refactoring runner; it decides nothing itself and writes no
evidence: `multi.py [--repo DIR] [PID ...]` prints one JSON object {pid: {"status", "rules", "error"}}.
"""
import argparse
import importlib
import json
import os
import sys
import traceback

HERE = os.path.dirname(os.path.abspath(__file__))
sys.path = [os.path.dirname(HERE)] + [p for p in sys.path if os.path.abspath(p or ".") != HERE]

from sa.index import AnalysisError  # noqa: E402
from sa import report  # noqa: E402

ALL = ["C%02d" % i for i in range(1, 21)]


def run_all(repo, pids=None, share=True):
    out = _run_all(repo, pids, share)
    retry = [p_ for p_, v in out.items() if v["status"] == "error"]
    if retry and os.environ.get("DEEP_VERIF_NORMALISE", "1") != "0":
        # see check.py: analyse the tree exactly as written when the normalised form is not understood
        os.environ["DEEP_VERIF_NORMALISE"] = "0"
        try:
            out.update(_run_all(repo, retry, share))
        finally:
            os.environ["DEEP_VERIF_NORMALISE"] = "1"
    return out


def _run_all(repo, pids=None, share=True):
    known = report.load_known()
    out = {}
    ctx = None
    for pid in pids or ALL:
        ent = {"status": "ok", "rules": [], "error": ""}
        try:
            if ctx is None or not share:
                ctx = report.Ctx(repo)
            mod = importlib.import_module("sa.props.%s" % pid.lower())
            report.CURRENT = None
            cache = ctx._extra.setdefault("borrowed", {}) if share else {}
            try:
                res = cache.get(pid)
                if res is None:
                    ctx._extra["borrow_stack"] = [pid]
                    ctx._extra["borrow_cut"] = False
                    try:
                        from sa.props import run_property
                        res = run_property(ctx, pid, "quick")
                    finally:
                        ctx._extra["borrow_stack"] = []
                    cache[pid] = res
                # a rule that matched nothing decides nothing: fail the run rather than pass vacuously
                for rid_, rr_ in res.rules.items():
                    if not rr_.get("obligations") and not [f_ for f_ in res.findings if f_.rule == rid_]:
                        res.floor_errors.append("rule %s has no instance on this tree (anchor moved, or a shared rule was cut)" % rid_)
                if res.floor_errors and not res.findings:
                    raise AnalysisError("; ".join(res.floor_errors))
            except AnalysisError as e:
                partial = report.CURRENT
                if partial is not None and partial.pid == pid and partial.findings:
                    res = partial
                else:
                    raise
            viol = [f for f in res.findings if report.match_known(pid, f, known) is None]
            if viol:
                ent["status"] = "violation"
                ent["rules"] = sorted({f.rule for f in viol})
                ent["first"] = viol[0].to_json()
        except AnalysisError as e:
            ent["status"] = "error"
            ent["error"] = str(e)[:300]
        except RecursionError:
            ent["status"] = "error"
            ent["error"] = "recursion"
        except Exception:
            ent["status"] = "error"
            ent["error"] = "internal: " + traceback.format_exc()[-400:]
        out[pid] = ent
    return out


if __name__ == "__main__":
    ap = argparse.ArgumentParser()
    ap.add_argument("--repo", default=os.environ.get("DEEP_VERIF_REPO", "/repo"))
    ap.add_argument("--no-share", action="store_true")
    ap.add_argument("pids", nargs="*")
    a = ap.parse_args()
    print(json.dumps(run_all(a.repo, [p.upper() for p in a.pids] or None, share=not a.no_share)))
