"""Normalisation before analysis: undo *extract-method*.

A private helper (method or module-level function) that the reference tree does not have is a product of
refactoring; when its calls stand at statement level (`helper(..)`, `x = helper(..)`, `return helper(..)`) or the
helper is a single `return <expr>`, its body is spliced back into the caller, so that the rules see the function the
way it was before the extraction. The helper's definition stays in the tree (unused). Helpers that exist in the
reference tree (`normalise_known.json`, regenerated with `python -m sa.normalise --stamp`) are never touched: the
rules know them by role. Nothing is inlined when a step is not understood (returns inside loops/try, helper used
as a value, *args): the tree is then analysed as it is.

Spliced statements keep their original line in `_src_line` (used for reporting); `lineno` of every node of a
rewritten function is renumbered in source order, because rules order statements of one function by `lineno`.
"""
import ast
import copy
import json
import os
from typing import Dict, List, Optional, Tuple

HERE = os.path.dirname(os.path.abspath(__file__))
KNOWN_FILE = os.path.join(HERE, "normalise_known.json")


def load_known() -> set:
    """keys of the private helpers of the validated tree (+ `all:<key>` for every function, public ones included)"""
    try:
        return set(json.load(open(KNOWN_FILE)))
    except (OSError, ValueError):
        return set()


def _private(name: str) -> bool:
    return name.startswith("_") and not (name.startswith("__") and name.endswith("__"))


def _defs(tree: ast.Module):
    """(class name or None, FunctionDef) for module-level functions and methods of module-level classes."""
    for s in tree.body:
        if isinstance(s, (ast.FunctionDef, ast.AsyncFunctionDef)):
            yield None, s
        elif isinstance(s, ast.ClassDef):
            for m in s.body:
                if isinstance(m, (ast.FunctionDef, ast.AsyncFunctionDef)):
                    yield s.name, m


def helper_keys(modname: str, tree: ast.Module):
    for cls, f in _defs(tree):
        if _private(f.name):
            yield "%s:%s%s" % (modname, (cls + ".") if cls else "", f.name)
        yield "all:%s:%s%s" % (modname, (cls + ".") if cls else "", f.name)


def _contains(node, types) -> bool:
    return any(isinstance(n, types) for n in ast.walk(node))


def _always_returns(stmts) -> bool:
    for s in stmts:
        if isinstance(s, (ast.Return, ast.Raise)):
            return True
        if isinstance(s, ast.If) and s.orelse and _always_returns(s.body) and _always_returns(s.orelse):
            return True
        if isinstance(s, ast.Try) and not s.finalbody and _always_returns(s.body) and all(_always_returns(h.body) for h in s.handlers):
            return True
    return False


class _Rename(ast.NodeTransformer):
    def __init__(self, mapping):
        self.m = mapping

    def visit_Name(self, n):
        if n.id in self.m:
            return ast.copy_location(ast.Name(id=self.m[n.id], ctx=n.ctx), n)
        return n

    def visit_arg(self, n):
        return n


def _bind(callee: ast.FunctionDef, call: ast.Call, drop_self: bool) -> Optional[List[Tuple[str, ast.expr]]]:
    a = callee.args
    if a.vararg or a.kwarg or a.kwonlyargs or a.posonlyargs:
        return None
    params = [p.arg for p in a.args]
    if drop_self:
        params = params[1:]
    if any(isinstance(x, ast.Starred) for x in call.args) or any(k.arg is None for k in call.keywords):
        return None
    if len(call.args) > len(params):
        return None
    out = {}
    for p, v in zip(params, call.args):
        out[p] = v
    for k in call.keywords:
        if k.arg not in params or k.arg in out:
            return None
        out[k.arg] = k.value
    defaults = dict(zip([p.arg for p in a.args][len(a.args) - len(a.defaults):], a.defaults))
    for p in params:
        if p not in out:
            if p not in defaults:
                return None
            out[p] = defaults[p]
    return [(p, out[p]) for p in params]


def _names(node) -> set:
    return {n.id for n in ast.walk(node) if isinstance(n, ast.Name)} | {a.arg for a in ast.walk(node) if isinstance(a, ast.arg)}


def _assigned(fn: ast.FunctionDef) -> set:
    out = {a.arg for a in fn.args.args}
    for n in ast.walk(fn):
        if isinstance(n, ast.Name) and isinstance(n.ctx, (ast.Store, ast.Del)):
            out.add(n.id)
    return out


def _to_assign(stmts, mk):
    """Rewrite a statement list so that every `return X` becomes `mk(X)` and control falls through to the end;
    None when the shape is not understood."""
    out = []
    for i, s in enumerate(stmts):
        if isinstance(s, ast.Return):
            r = mk(s.value if s.value is not None else ast.Constant(None), s)
            if r is not None:
                out.append(r)
            return out
        if not _contains(s, ast.Return):
            out.append(s)
            continue
        if isinstance(s, ast.If):
            rest = stmts[i + 1:]
            if s.orelse and _always_returns(s.body) and _always_returns(s.orelse):
                b, o = _to_assign(s.body, mk), _to_assign(s.orelse, mk)
                if b is None or o is None:
                    return None
                out.append(ast.copy_location(ast.If(test=s.test, body=b or [ast.Pass()], orelse=o), s))
                return out
            if not s.orelse and _always_returns(s.body):
                b, o = _to_assign(s.body, mk), _to_assign(rest, mk)
                if b is None or o is None:
                    return None
                out.append(ast.copy_location(ast.If(test=s.test, body=b or [ast.Pass()], orelse=o), s))
                return out
            if s.orelse and _always_returns(s.orelse) and not _contains(ast.Module(body=s.body, type_ignores=[]), ast.Return):
                o, b = _to_assign(s.orelse, mk), _to_assign(list(s.body) + rest, mk)
                if b is None or o is None:
                    return None
                out.append(ast.copy_location(ast.If(test=s.test, body=b or [ast.Pass()], orelse=o or [ast.Pass()]), s))
                return out
        if isinstance(s, ast.Try) and not s.finalbody and not s.orelse:
            parts = [s.body] + [h.body for h in s.handlers]
            if all(_always_returns(b) for b in parts):
                conv = [_to_assign(b, mk) for b in parts]
                if any(c is None for c in conv):
                    return None
                hs = [ast.copy_location(ast.ExceptHandler(type=h.type, name=h.name, body=c or [ast.Pass()]), h) for h, c in zip(s.handlers, conv[1:])]
                out.append(ast.copy_location(ast.Try(body=conv[0] or [ast.Pass()], handlers=hs, orelse=[], finalbody=[]), s))
                return out
            return None
        if isinstance(s, (ast.With,)):
            b = _to_assign(s.body, mk)
            if b is None or i + 1 < len(stmts) and _always_returns(s.body) is False and _contains(s, ast.Return):
                return None
            out.append(ast.copy_location(ast.With(items=s.items, body=b or [ast.Pass()]), s))
            if _always_returns(s.body):
                return out
            continue
        return None
    r = mk(ast.Constant(None), None)
    if r is not None:
        out.append(r)
    return out


class _Inliner:
    def __init__(self, modname, tree, known):
        self.modname, self.tree, self.known = modname, tree, known
        self.done: List[str] = []
        self.touched = set()

    def candidates(self):
        out = {}
        for cls, f in _defs(self.tree):
            key = "%s:%s%s" % (self.modname, (cls + ".") if cls else "", f.name)
            if _private(f.name):
                if key in self.known:
                    continue
            else:
                # a new public function is spliced back only when it is one `return <expr>` (a named predicate / accessor);
                # its definition stays (other modules may use it)
                body_ = [st for st in f.body if not (isinstance(st, ast.Expr) and isinstance(st.value, ast.Constant))]
                if "all:" + key in self.known or not any(k.startswith("all:") for k in self.known) or f.name.startswith("__") \
                        or not (len(body_) == 1 and isinstance(body_[0], ast.Return) and body_[0].value is not None):
                    continue
            decos = [ast.unparse(d) for d in f.decorator_list]
            if any(d not in ("staticmethod",) for d in decos):
                continue
            if isinstance(f, ast.AsyncFunctionDef) or _contains(f, (ast.Yield, ast.YieldFrom, ast.Await, ast.Global, ast.Nonlocal)):
                continue
            if any(isinstance(n, ast.Call) and self._is_call_of(n, cls, f.name) for n in ast.walk(f)):
                continue        # recursive
            out[(cls, f.name)] = (f, "staticmethod" in decos)
        return out

    @staticmethod
    def _is_call_of(call: ast.Call, cls, name) -> bool:
        fn = call.func
        if cls is None:
            return isinstance(fn, ast.Name) and fn.id == name
        return isinstance(fn, ast.Attribute) and fn.attr == name and isinstance(fn.value, ast.Name) and fn.value.id in ("self", "cls", cls)

    @staticmethod
    def _canon_default_idiom(f):
        """v = M.get(k); if v is None: v = d; return v   ==>   return M.get(k, d)   (the default for a missing / None value)"""
        body = [st for st in f.body if not (isinstance(st, ast.Expr) and isinstance(st.value, ast.Constant))]
        if len(body) != 3:
            return
        a, c, r = body
        if not (isinstance(a, ast.Assign) and len(a.targets) == 1 and isinstance(a.targets[0], ast.Name) and isinstance(a.value, ast.Call)
                and isinstance(a.value.func, ast.Attribute) and a.value.func.attr == "get" and len(a.value.args) == 1 and not a.value.keywords):
            return
        v = a.targets[0].id
        if not (isinstance(c, ast.If) and not c.orelse and len(c.body) == 1 and isinstance(c.body[0], ast.Assign) and len(c.body[0].targets) == 1
                and isinstance(c.body[0].targets[0], ast.Name) and c.body[0].targets[0].id == v and ast.unparse(c.test) == "%s is None" % v):
            return
        if not (isinstance(r, ast.Return) and isinstance(r.value, ast.Name) and r.value.id == v):
            return
        call = ast.Call(func=a.value.func, args=[a.value.args[0], c.body[0].value], keywords=[])
        ret = ast.copy_location(ast.Return(value=ast.copy_location(call, a.value)), a)
        ast.fix_missing_locations(ret)
        f.body = [st for st in f.body if st not in (a, c, r)] + [ret]

    def run(self):
        cands = self.candidates()
        if not cands:
            return
        for (_cls, _name), (callee_, _static) in cands.items():
            self._canon_default_idiom(callee_)
        for (cls, name), (callee, static) in sorted(cands.items(), key=lambda kv: (kv[0][0] or "", kv[0][1])):
            # the helper must only ever be *called* (never handed around as a value)
            refs = calls = 0
            for n in ast.walk(self.tree):
                if cls is None and isinstance(n, ast.Name) and n.id == name and isinstance(n.ctx, ast.Load):
                    refs += 1
                if cls is not None and isinstance(n, ast.Attribute) and n.attr == name:
                    refs += 1
                if isinstance(n, ast.Call) and self._is_call_of(n, cls, name):
                    calls += 1
            body_ = [st for st in callee.body if not (isinstance(st, ast.Expr) and isinstance(st.value, ast.Constant))]
            one_expr = len(body_) == 1 and isinstance(body_[0], ast.Return)
            if calls == 0 or refs != calls or calls > (12 if one_expr else 4):
                continue
            ok_all = True
            for ccls, caller in list(_defs(self.tree)):
                if caller is callee or (cls is not None and ccls != cls):
                    continue
                if not any(isinstance(n, ast.Call) and self._is_call_of(n, cls, name) for n in ast.walk(caller)):
                    continue
                new_body = self._rewrite_block(caller.body, caller, cls, name, callee, static)
                if new_body is None:
                    ok_all = False
                    continue
                caller.body = new_body
                self.touched.add(id(caller))
                self.done.append("%s%s into %s" % ((cls + ".") if cls else "", name, caller.name))
            # a helper none of whose calls is left is dead: drop its definition, so that no rule analyses it on its own
            left = sum(1 for n in ast.walk(self.tree) if isinstance(n, ast.Call) and self._is_call_of(n, cls, name))
            if ok_all and left == 0 and _private(name):
                holder = self.tree if cls is None else next((c for c in self.tree.body if isinstance(c, ast.ClassDef) and c.name == cls), None)
                if holder is not None and callee in holder.body:
                    holder.body.remove(callee)

    # ------------------------------------------------------------------
    def _fresh_body(self, caller, callee, call, static, is_method, target_name=None):
        binds = _bind(callee, call, drop_self=is_method and not static)
        if binds is None:
            return None
        caller_names = _names(caller) - _names(call)
        if target_name is not None:
            # extract-method keeps the name: the local the helper returns is the variable the caller assigns
            uses = sum(1 for n in ast.walk(caller) if isinstance(n, ast.Name) and n.id == target_name and isinstance(n.ctx, ast.Store))
            if uses <= 1:
                caller_names.discard(target_name)
        caller_names |= {a.arg for a in caller.args.args}
        body = [copy.deepcopy(s) for s in callee.body if not (isinstance(s, ast.Expr) and isinstance(s.value, ast.Constant))]
        same = {p for p, v in binds if isinstance(v, ast.Name) and v.id == p}
        # accumulator idiom `acc = helper(acc, item)`: the helper's parameter is the caller's accumulator under another name -
        # it takes the caller's name (no binding statements, the accumulator keeps one name across the loop)
        if target_name is not None:
            callee_names = _names(callee)
            acc_ren = {p_: target_name for p_, v_ in binds if isinstance(v_, ast.Name) and v_.id == target_name and p_ != target_name
                       and target_name not in callee_names}
            if len(acc_ren) == 1:
                body = [_Rename(acc_ren).visit(s) for s in body]
                binds = [(acc_ren.get(p_, p_), v_) for p_, v_ in binds]
                same = {p for p, v in binds if isinstance(v, ast.Name) and v.id == p}
        # a parameter that is only read and receives a plain name of the caller is that name (no binding statement: a helper
        # called twice in one caller would otherwise bind the same local twice)
        assigned_ = {n.id for n in ast.walk(callee) if isinstance(n, ast.Name) and isinstance(n.ctx, (ast.Store, ast.Del))}
        callee_locals = _names(callee)
        direct = {p_: v_.id for p_, v_ in binds if p_ not in same and isinstance(v_, ast.Name) and p_ not in assigned_
                  and p_ not in ("self", "cls") and (v_.id not in callee_locals or v_.id == p_)}
        if direct:
            body = [_Rename(direct).visit(s) for s in body]
            binds = [(direct.get(p_, p_), v_) for p_, v_ in binds]
            same = {p for p, v in binds if isinstance(v, ast.Name) and v.id == p}
        ren = {x: "%s__%s" % (x, callee.name.strip("_")) for x in _assigned(callee)
               if x in caller_names and x not in same and x not in ("self", "cls")}
        # a local of the helper that has the name of something the call passes in is another variable: it gets its own name
        params_ = {a.arg for a in callee.args.args + callee.args.kwonlyargs}
        for x in assigned_ - params_:
            if x in _names(call) and x != target_name:
                ren.setdefault(x, "%s__%s" % (x, callee.name.strip("_")))
        if ren:
            body = [_Rename(ren).visit(s) for s in body]
        pre = []
        for p, v in binds:
            if p in same:
                continue
            tgt = ast.Name(id=ren.get(p, p), ctx=ast.Store())
            pre.append(ast.copy_location(ast.Assign(targets=[tgt], value=copy.deepcopy(v)), call))
        for s in pre:
            ast.fix_missing_locations(s)
        return pre, body

    def _rewrite_block(self, stmts, caller, cls, name, callee, static):
        out = []
        is_method = cls is not None
        for s in stmts:
            call = None
            kind = None
            if isinstance(s, ast.Expr) and isinstance(s.value, ast.Call) and self._is_call_of(s.value, cls, name):
                call, kind = s.value, "expr"
            elif isinstance(s, ast.Return) and isinstance(s.value, ast.Call) and self._is_call_of(s.value, cls, name):
                call, kind = s.value, "return"
            elif isinstance(s, ast.Assign) and len(s.targets) == 1 and isinstance(s.value, ast.Call) and self._is_call_of(s.value, cls, name):
                call, kind = s.value, "assign"
            elif isinstance(s, ast.AnnAssign) and s.value is not None and isinstance(s.value, ast.Call) and self._is_call_of(s.value, cls, name):
                call, kind = s.value, "assign"
            if call is not None:
                # a helper that is one `return <expr>`, called with plain arguments: put the expression in place of the call
                # (no binding statements - the caller's names keep one meaning each)
                cb_ = [st for st in callee.body if not (isinstance(st, ast.Expr) and isinstance(st.value, ast.Constant))]
                if len(cb_) == 1 and isinstance(cb_[0], ast.Return) and cb_[0].value is not None:
                    s2 = self._subst_expr(copy.deepcopy(s), caller, cls, name, callee, static)
                    if s2 is not None:
                        out.append(s2)
                        continue
                tname = None
                if kind == "assign":
                    tg0 = s.targets[0] if isinstance(s, ast.Assign) else s.target
                    tname = tg0.id if isinstance(tg0, ast.Name) else None
                fb = self._fresh_body(caller, callee, call, static, is_method, tname)
                if fb is None:
                    return None
                pre, body = fb
                if kind == "return":
                    new = pre + body
                    if not _always_returns(body):
                        new.append(ast.copy_location(ast.Return(value=ast.Constant(None)), s))
                else:
                    final = None
                    if kind == "assign":
                        target = s.targets[0] if isinstance(s, ast.Assign) else s.target
                        nret = sum(1 for b_ in body for n_ in ast.walk(b_) if isinstance(n_, ast.Return))
                        if nret > 1 and isinstance(target, ast.Subscript):
                            # several ways out: collect the result in one local, store it into the target once
                            tmp = "%s_result" % callee.name.strip("_")
                            final = ast.copy_location(ast.Assign(targets=[copy.deepcopy(target)], value=ast.Name(id=tmp, ctx=ast.Load())), s)
                            target = ast.Name(id=tmp, ctx=ast.Store())

                        def mk(v, at, target=target, s=s):
                            return ast.copy_location(ast.Assign(targets=[copy.deepcopy(target)], value=v), at if at is not None else s)
                    else:
                        def mk(v, at, s=s):
                            if isinstance(v, ast.Constant) and v.value is None:
                                return None
                            return ast.copy_location(ast.Expr(value=v), at if at is not None else s)
                    body2 = _to_assign(body, mk)
                    if body2 is None:
                        return None
                    new = pre + body2 + ([final] if final is not None else [])
                for x in new:
                    ast.fix_missing_locations(x)
                out.extend(new or [ast.copy_location(ast.Pass(), s)])
                continue
            # expression-level use of a single-`return <expr>` helper
            if any(isinstance(n, ast.Call) and self._is_call_of(n, cls, name) for n in self._own_exprs(s)):
                s2 = self._subst_expr(s, caller, cls, name, callee, static)
                if s2 is None:
                    # a helper with statements, called as an argument of the statement's own call (`return F(a, helper(b))`,
                    # the other arguments plain names / constants / attributes - nothing whose evaluation could be reordered):
                    # its value gets a name first, then the statement reads as before
                    top = s.value if isinstance(s, (ast.Return, ast.Assign, ast.Expr)) else None
                    hoisted = None
                    if isinstance(top, ast.Call) and not self._is_call_of(top, cls, name):
                        nested = [a for a in list(top.args) + [k.value for k in top.keywords] if isinstance(a, ast.Call) and self._is_call_of(a, cls, name)]
                        others = [a for a in list(top.args) + [k.value for k in top.keywords] if a not in nested]

                        def plain(x):
                            return isinstance(x, (ast.Name, ast.Constant)) or (isinstance(x, ast.Attribute) and plain(x.value))
                        total = sum(1 for n in self._own_exprs(s) if isinstance(n, ast.Call) and self._is_call_of(n, cls, name))
                        if len(nested) == 1 and total == 1 and all(plain(x) for x in others) and plain(top.func):
                            tmp = "%s_value" % name.strip("_")
                            if tmp not in _names(caller):
                                asg = ast.copy_location(ast.Assign(targets=[ast.Name(id=tmp, ctx=ast.Store())], value=nested[0]), s)
                                s3 = copy.deepcopy(s)
                                top3 = s3.value
                                idx = [i for i, a in enumerate(top.args) if a is nested[0]]
                                if idx:
                                    top3.args[idx[0]] = ast.Name(id=tmp, ctx=ast.Load())
                                else:
                                    for k3, k0 in zip(top3.keywords, top.keywords):
                                        if k0.value is nested[0]:
                                            k3.value = ast.Name(id=tmp, ctx=ast.Load())
                                ast.fix_missing_locations(asg)
                                ast.fix_missing_locations(s3)
                                hoisted = self._rewrite_block([asg, s3], caller, cls, name, callee, static)
                    if hoisted is None:
                        return None
                    out.extend(hoisted)
                    continue
                s = s2
            # nested blocks
            for fld in ("body", "orelse", "finalbody"):
                blk = getattr(s, fld, None)
                if isinstance(blk, list) and blk and isinstance(blk[0], ast.stmt) and not isinstance(s, (ast.FunctionDef, ast.AsyncFunctionDef, ast.ClassDef)):
                    nb = self._rewrite_block(blk, caller, cls, name, callee, static)
                    if nb is None:
                        return None
                    setattr(s, fld, nb)
            if isinstance(s, ast.Try):
                for h in s.handlers:
                    nb = self._rewrite_block(h.body, caller, cls, name, callee, static)
                    if nb is None:
                        return None
                    h.body = nb
            out.append(s)
        return out

    @staticmethod
    def _own_exprs(s):
        """expression nodes of a statement that are not inside its nested statement blocks"""
        stack = []
        for fld, val in ast.iter_fields(s):
            if fld in ("body", "orelse", "finalbody", "handlers"):
                continue
            if isinstance(val, ast.AST):
                stack.append(val)
            elif isinstance(val, list):
                stack.extend(v for v in val if isinstance(v, ast.AST))
        while stack:
            n = stack.pop()
            yield n
            stack.extend(ast.iter_child_nodes(n))

    def _subst_expr(self, s, caller, cls, name, callee, static):
        body = [x for x in callee.body if not (isinstance(x, ast.Expr) and isinstance(x.value, ast.Constant))]
        if len(body) != 1 or not isinstance(body[0], ast.Return) or body[0].value is None:
            return None
        expr = body[0].value
        inl = self

        class T(ast.NodeTransformer):
            failed = False

            def visit_Call(self, n):
                self.generic_visit(n)
                if not inl._is_call_of(n, cls, name):
                    return n
                binds = _bind(callee, n, drop_self=cls is not None and not static)
                if binds is None or not all(isinstance(v, (ast.Name, ast.Constant, ast.Attribute)) for _, v in binds):
                    self.failed = True
                    return n
                m = dict(binds)

                class S(ast.NodeTransformer):
                    def visit_Name(self, x):
                        if x.id in m and isinstance(x.ctx, ast.Load):
                            return copy.deepcopy(m[x.id])
                        return x
                return ast.copy_location(S().visit(copy.deepcopy(expr)), n)

        # only the statement's own expressions (nested blocks are handled by the caller of this function)
        tr = T()
        for fld, val in list(ast.iter_fields(s)):
            if fld in ("body", "orelse", "finalbody", "handlers"):
                continue
            if isinstance(val, ast.AST):
                setattr(s, fld, tr.visit(val))
            elif isinstance(val, list):
                setattr(s, fld, [tr.visit(v) if isinstance(v, ast.AST) else v for v in val])
        if tr.failed:
            return None
        ast.fix_missing_locations(s)
        return s


def _renumber(fn: ast.FunctionDef):
    """lineno in source order for every node of fn; the real line is kept in _src_line."""
    counter = [fn.lineno * 1000]

    def visit(n):
        if hasattr(n, "lineno"):
            if not hasattr(n, "_src_line"):
                n._src_line = n.lineno
            counter[0] += 1
            n.lineno = counter[0]
        for ch in ast.iter_child_nodes(n):
            visit(ch)
        if hasattr(n, "lineno"):
            n.end_lineno = counter[0]
    for d in fn.decorator_list:
        pass
    src = fn.lineno
    visit(fn)
    fn._src_line = src


def _is_call_attr(e, attr):
    return isinstance(e, ast.Call) and isinstance(e.func, ast.Attribute) and e.func.attr == attr


def _canon_with(stmts, done, where):
    """x = <expr>; x.__enter__(); try: BODY finally: x.__exit__(None, None, None)   ==>   with <expr> as x: BODY
    (the context-manager protocol written out by hand - only when __exit__ gets three None and nothing else is in the finally)"""
    out = []
    i = 0
    while i < len(stmts):
        s = stmts[i]
        # recurse into nested blocks first
        for fld in ("body", "orelse", "finalbody"):
            blk = getattr(s, fld, None)
            if isinstance(blk, list) and blk and isinstance(blk[0], ast.stmt) and not isinstance(s, (ast.FunctionDef, ast.AsyncFunctionDef, ast.ClassDef)):
                setattr(s, fld, _canon_with(blk, done, where))
        if isinstance(s, ast.Try):
            for h in s.handlers:
                h.body = _canon_with(h.body, done, where)
        if isinstance(s, ast.Expr) and _is_call_attr(s.value, "__enter__") and not s.value.args and i + 1 < len(stmts) and isinstance(stmts[i + 1], ast.Try):
            tr = stmts[i + 1]
            cm = s.value.func.value
            fin = tr.finalbody
            if not tr.handlers and not tr.orelse and len(fin) == 1 and isinstance(fin[0], ast.Expr) and _is_call_attr(fin[0].value, "__exit__") \
                    and ast.unparse(fin[0].value.func.value) == ast.unparse(cm) and len(fin[0].value.args) == 3 \
                    and all(isinstance(a, ast.Constant) and a.value is None for a in fin[0].value.args):
                ctx_expr, var = cm, None
                # preceded by `name = <expr>` (or `name: T = <expr>`) for the same name: with <expr> as name
                if out and isinstance(cm, ast.Name):
                    prev = out[-1]
                    tgt = prev.targets[0] if isinstance(prev, ast.Assign) and len(prev.targets) == 1 else (prev.target if isinstance(prev, ast.AnnAssign) and prev.value is not None else None)
                    if isinstance(tgt, ast.Name) and tgt.id == cm.id:
                        ctx_expr, var = prev.value, ast.Name(id=cm.id, ctx=ast.Store())
                        out.pop()
                w = ast.With(items=[ast.withitem(context_expr=ctx_expr, optional_vars=var)], body=_canon_with(tr.body, done, where))
                ast.copy_location(w, s)
                ast.fix_missing_locations(w)
                out.append(w)
                done.append("%s: explicit __enter__/__exit__ of `%s` read as a with block" % (where, ast.unparse(cm)))
                i += 2
                continue
        # L.acquire(); try: BODY finally: L.release()   ==>   with L: BODY   (a lock taken and released by hand)
        if isinstance(s, ast.Expr) and _is_call_attr(s.value, "acquire") and not s.value.args and not s.value.keywords and i + 1 < len(stmts) \
                and isinstance(stmts[i + 1], ast.Try):
            tr = stmts[i + 1]
            lk = s.value.func.value
            fin = tr.finalbody
            if not tr.handlers and not tr.orelse and len(fin) == 1 and isinstance(fin[0], ast.Expr) and _is_call_attr(fin[0].value, "release") \
                    and not fin[0].value.args and ast.unparse(fin[0].value.func.value) == ast.unparse(lk):
                w = ast.With(items=[ast.withitem(context_expr=lk, optional_vars=None)], body=_canon_with(tr.body, done, where))
                ast.copy_location(w, s)
                ast.fix_missing_locations(w)
                out.append(w)
                done.append("%s: acquire / try / finally release of `%s` read as a with block" % (where, ast.unparse(lk)))
                i += 2
                continue
        out.append(s)
        i += 1
    return out



def _canon_call_memo(tree: ast.Module, done, where):
    """A memo that lives for one call only reads like the computation itself:

        if K not in M: M[K] = E          (M: a dict created empty in this function, or a parameter that is `None`/absent or
        ... M[K] ...                         such a dict at every call site of this module)
    ==>  ... E ...

    A memo kept anywhere else (instance, class, module) is left alone - whether it may outlive what E depends on is what
    the rules decide."""
    funcs = {}
    for cls_, f_ in _defs(tree):
        funcs[(cls_, f_.name)] = f_

    def empty_dict(v):
        return (isinstance(v, ast.Dict) and not v.keys) or (isinstance(v, ast.Call) and isinstance(v.func, ast.Name) and v.func.id == "dict" and not v.args and not v.keywords)

    def local_fresh(f, name):
        binds = [n for n in ast.walk(f) if isinstance(n, (ast.Assign, ast.AnnAssign)) and any(
            isinstance(t_, ast.Name) and t_.id == name for t_ in (n.targets if isinstance(n, ast.Assign) else [n.target]))]
        return bool(binds) and all(n.value is not None and empty_dict(n.value) for n in binds) and name not in {a.arg for a in f.args.args + f.args.kwonlyargs}

    def param_fresh(cls_, f, name):
        args = f.args.args + f.args.kwonlyargs
        if name not in {a.arg for a in args}:
            return False
        # inside: only `if M is None: M = {}` may rebind it
        for n in ast.walk(f):
            if isinstance(n, ast.Assign) and any(isinstance(t_, ast.Name) and t_.id == name for t_ in n.targets) and not empty_dict(n.value):
                return False
        idx = [a.arg for a in f.args.args].index(name) if name in [a.arg for a in f.args.args] else None
        off = 1 if cls_ is not None and f.args.args and f.args.args[0].arg in ("self", "cls") else 0
        ncalls = 0
        for (c2, _), g in funcs.items():
            for n in ast.walk(g):
                if not (isinstance(n, ast.Call) and _Inliner._is_call_of(n, cls_, f.name)):
                    continue
                ncalls += 1
                a = None
                if idx is not None and idx - off < len(n.args):
                    a = n.args[idx - off]
                for kw in n.keywords:
                    if kw.arg == name:
                        a = kw.value
                if a is None or (isinstance(a, ast.Constant) and a.value is None):
                    continue
                if not (isinstance(a, ast.Name) and local_fresh(g, a.id)):
                    return False
        # referenced otherwise than by a call (handed around): unknown callers
        refs = sum(1 for n in ast.walk(tree) if (isinstance(n, ast.Attribute) and n.attr == f.name) or (isinstance(n, ast.Name) and n.id == f.name and isinstance(n.ctx, ast.Load)))
        return ncalls > 0 and refs == ncalls

    for (cls_, _), f in list(funcs.items()):
        def walk_blocks(stmts):
            i = 0
            while i < len(stmts):
                st = stmts[i]
                hit = None
                if isinstance(st, ast.If) and not st.orelse and len(st.body) == 1 and isinstance(st.body[0], ast.Assign) and len(st.body[0].targets) == 1 \
                        and isinstance(st.test, ast.Compare) and len(st.test.ops) == 1 and isinstance(st.test.ops[0], ast.NotIn) \
                        and isinstance(st.test.comparators[0], ast.Name):
                    m_, k_ = st.test.comparators[0].id, st.test.left
                    tg = st.body[0].targets[0]
                    if isinstance(tg, ast.Subscript) and isinstance(tg.value, ast.Name) and tg.value.id == m_ and ast.dump(tg.slice) == ast.dump(k_) \
                            and isinstance(k_, (ast.Name, ast.Constant)) and (local_fresh(f, m_) or param_fresh(cls_, f, m_)):
                        hit = (m_, k_, st.body[0].value)
                if hit is not None:
                    m_, k_, e_ = hit
                    rest = stmts[i + 1:]
                    # the key and what E reads keep their meaning over the rest of the block (no rebinding)
                    names = {n.id for n in ast.walk(e_) if isinstance(n, ast.Name)} | ({k_.id} if isinstance(k_, ast.Name) else set())
                    rebound = any(isinstance(n, ast.Name) and isinstance(n.ctx, ast.Store) and n.id in names for r in rest for n in ast.walk(r))
                    other_use = any(isinstance(n, ast.Name) and n.id == m_ and not (isinstance(getattr(n, "_p", None), ast.Subscript)) for r in rest for n in [])
                    if not rebound:
                        class S(ast.NodeTransformer):
                            def visit_Subscript(self, n):
                                self.generic_visit(n)
                                if isinstance(n.ctx, ast.Load) and isinstance(n.value, ast.Name) and n.value.id == m_ and ast.dump(n.slice) == ast.dump(k_):
                                    return ast.copy_location(copy.deepcopy(e_), n)
                                return n
                        new_rest = [S().visit(r) for r in rest]
                        left = any(isinstance(n, ast.Name) and n.id == m_ for r in new_rest for n in ast.walk(r))
                        if not left:
                            stmts[i:] = new_rest
                            for r in new_rest:
                                ast.fix_missing_locations(r)
                            done.append("%s:%s: per-call memo `%s` read as the computation it remembers" % (where, f.name, m_))
                            continue
                for fld in ("body", "orelse", "finalbody"):
                    sub = getattr(st, fld, None)
                    if isinstance(sub, list) and sub and isinstance(sub[0], ast.stmt):
                        walk_blocks(sub)
                for h in getattr(st, "handlers", []) or []:
                    walk_blocks(h.body)
                i += 1
        walk_blocks(f.body)


NT_FIELDS: Dict[str, int] = {}      # field name -> position, for the NamedTuple classes of the tree last normalised


def _canon_namedtuples(modules, done):
    """`class R(NamedTuple): a: A; b: B` is a tuple with named positions: `R(x, y)` reads like `(x, y)` (and `r.b` like `r[1]`,
    see Expander._attr) - a result type given a name keeps meaning what the plain tuple meant."""
    NT_FIELDS.clear()
    classes = {}
    for name in sorted(modules):
        for n in ast.walk(modules[name].tree):
            if isinstance(n, ast.ClassDef) and any((isinstance(b, ast.Name) and b.id == "NamedTuple") or (isinstance(b, ast.Attribute) and b.attr == "NamedTuple") for b in n.bases):
                fields = [st.target.id for st in n.body if isinstance(st, ast.AnnAssign) and isinstance(st.target, ast.Name)]
                if fields and not any(isinstance(st, ast.AnnAssign) and st.value is not None for st in n.body):
                    classes[n.name] = None if n.name in classes else fields
    classes = {k: v for k, v in classes.items() if v}
    if not classes:
        return
    pos = {}
    for fields in classes.values():
        for i, f in enumerate(fields):
            pos.setdefault(f, set()).add(i)
    NT_FIELDS.update({f: next(iter(ix)) for f, ix in pos.items() if len(ix) == 1})

    class T(ast.NodeTransformer):
        def visit_Call(self, n):
            self.generic_visit(n)
            nm = n.func.id if isinstance(n.func, ast.Name) else (n.func.attr if isinstance(n.func, ast.Attribute) else None)
            fields = classes.get(nm)
            if not fields or any(isinstance(a, ast.Starred) for a in n.args) or any(k.arg is None for k in n.keywords):
                return n
            vals = list(n.args)
            if n.keywords:
                byname = {k.arg: k.value for k in n.keywords}
                for f in fields[len(vals):]:
                    if f not in byname:
                        return n
                    vals.append(byname[f])
            if len(vals) != len(fields):
                return n
            return ast.copy_location(ast.Tuple(elts=vals, ctx=ast.Load()), n)
    for name in sorted(modules):
        before = sum(1 for x in ast.walk(modules[name].tree) if isinstance(x, ast.Call))
        modules[name].tree = T().visit(modules[name].tree)
        ast.fix_missing_locations(modules[name].tree)
        after = sum(1 for x in ast.walk(modules[name].tree) if isinstance(x, ast.Call))
        if after != before:
            done.append("%s: %d NamedTuple constructions read as tuples" % (name, before - after))

def undo_extractions(modules: Dict[str, object], known: Optional[set] = None) -> List[str]:
    """modules: name -> object with `.tree` (ast.Module). Returns a description of what was spliced back."""
    known = load_known() if known is None else known
    if not known:
        return []           # no reference table: analyse the tree as it is
    done = []
    _canon_namedtuples(modules, done)
    for name in sorted(modules):
        m = modules[name]
        for cls_, f_ in _defs(m.tree):
            n0 = len(done)
            f_.body = _canon_with(f_.body, done, "%s:%s" % (name, f_.name))
            if len(done) > n0:
                _renumber(f_)
        n1 = len(done)
        _canon_call_memo(m.tree, done, name)
        if len(done) > n1:
            for cls_, f_ in _defs(m.tree):
                _renumber(f_)
        for _ in range(3):
            inl = _Inliner(name, m.tree, known)
            inl.run()
            if not inl.done:
                break
            done.extend("%s: %s" % (name, d) for d in inl.done)
            for cls, f in _defs(m.tree):
                if id(f) in inl.touched:
                    _renumber(f)
    return done


if __name__ == "__main__":
    import sys
    sys.path.insert(0, os.path.dirname(HERE))
    from sa.index import Program, repo_root
    if "--stamp" in sys.argv:
        keys = []
        root = os.path.join(repo_root(), "src")
        for dp, dn, fn in os.walk(root):
            for f in fn:
                if f.endswith(".py"):
                    path = os.path.join(dp, f)
                    parts = os.path.relpath(path, root)[:-3].split(os.sep)
                    if parts[-1] == "__init__":
                        parts = parts[:-1]
                    keys.extend(helper_keys(".".join(parts), ast.parse(open(path).read())))
        json.dump(sorted(set(keys)), open(KNOWN_FILE, "w"), indent=0)
        print("stamped %d private helpers" % len(set(keys)))
    else:
        p = Program(sys.argv[1] if len(sys.argv) > 1 else None)
        for d in getattr(p, "normalised", []):
            print(d)
