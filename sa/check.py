#!/venv/bin/python
"""Entry point: `check.py <PROPERTY_ID> [--tier quick|thorough] [--repo DIR] [--evidence-dir DIR]`.

Exit 0: every obligation discharged (after known-finding matching).
Exit 1: `VIOLATION property=<id> replay=<file>` - an undischarged obligation not listed in known_findings.json.
Exit 2: `ANALYSIS-ERROR` - the checker could not analyse the tree (anchor vanished, shape not understood).
"""
import argparse
import importlib
import json
import os
import sys
import time
import traceback

HERE = os.path.dirname(os.path.abspath(__file__))
sys.path = [os.path.dirname(HERE)] + [p for p in sys.path if os.path.abspath(p or ".") != HERE]

from sa.index import AnalysisError  # noqa: E402
from sa import report  # noqa: E402


def main(argv=None) -> int:
    ap = argparse.ArgumentParser()
    ap.add_argument("pid")
    ap.add_argument("--tier", default=os.environ.get("VERIF_TIER", "quick"), choices=["quick", "thorough"])
    ap.add_argument("--repo", default=os.environ.get("DEEP_VERIF_REPO", "/repo"))
    ap.add_argument("--evidence-dir", default=os.path.join(report.VERIF, "evidence"))
    ap.add_argument("--no-selftest", action="store_true")
    ap.add_argument("--json", action="store_true", help="print findings as JSON (used by the self-test)")
    args = ap.parse_args(argv)
    pid = args.pid.upper()
    t0 = time.time()
    res = None
    selftest = None
    ctx = None
    try:
        mod = importlib.import_module("sa.props.%s" % pid.lower())

        def attempt():
            nonlocal ctx
            ctx = report.Ctx(args.repo)
            report.CURRENT = None
            try:
                from sa.props import run_property
                r = run_property(ctx, pid, args.tier)
                # a rule that matched nothing decides nothing: fail the run rather than pass vacuously
                for rid_, rr_ in r.rules.items():
                    if not rr_.get("obligations") and not [f_ for f_ in r.findings if f_.rule == rid_]:
                        r.floor_errors.append("rule %s has no instance on this tree (anchor moved, or a shared rule was cut)" % rid_)
                if r.floor_errors and not r.findings:
                    raise AnalysisError("; ".join(r.floor_errors))
                return r
            except AnalysisError as e:
                # an anchor that vanished *after* violations were already established does not mask them
                partial = report.CURRENT
                if partial is not None and partial.pid == pid and partial.findings:
                    partial.analysed["analysis stopped early"] = str(e)
                    return partial
                raise
        try:
            res = attempt()
        except AnalysisError:
            # the tree is analysed with freshly extracted helpers spliced back into their callers (sa/normalise.py); when
            # that form is not understood, analyse the tree exactly as written before giving up
            if os.environ.get("DEEP_VERIF_NORMALISE", "1") == "0":
                raise
            os.environ["DEEP_VERIF_NORMALISE"] = "0"
            try:
                res = attempt()
            finally:
                os.environ["DEEP_VERIF_NORMALISE"] = "1"
        if ctx is not None and getattr(ctx.prog, "normalised", None):
            res.analysed["helpers spliced back into their callers before analysis"] = list(ctx.prog.normalised)
        if args.tier == "thorough" and not args.no_selftest:
            from sa.selftest import runner
            selftest = runner.run_for(pid)
            if selftest.get("failed"):
                raise AnalysisError("self-test of the checker failed: %s" % json.dumps(selftest["failed"])[:2000])
            for w in selftest.get("warnings") or []:
                print("SELFTEST-WARNING property=%s case %s (tree differs from the one the cases were written for): %s" % (
                    pid, w["id"], w["detail"][:200]))
    except AnalysisError as e:
        print("ANALYSIS-ERROR property=%s %s" % (pid, e))
        return 2
    except Exception:
        print("ANALYSIS-ERROR property=%s internal error" % pid)
        traceback.print_exc()
        return 2

    known = report.load_known()
    violations, known_hits = [], []
    for f in res.findings:
        k = report.match_known(pid, f, known)
        if k is not None:
            known_hits.append({"rule": f.rule, "function": f.func, "construct": f.construct, "what": k.get("what", "")})
        else:
            violations.append(f)

    if args.json:
        print(json.dumps({"violations": [f.to_json() for f in violations], "known": known_hits,
                          "obligations": res.obligations, "discharged": res.discharged}))
        return 1 if violations else 0

    wall = time.time() - t0
    print("property=%s tier=%s repo=%s obligations=%d discharged=%d findings=%d wall=%.2fs" % (
        pid, args.tier, args.repo, res.obligations, res.discharged, len(res.findings), wall))
    for rid, r in sorted(res.rules.items()):
        print("  rule %-10s %3d/%-3d %s" % (rid, r["discharged"], r["obligations"], r.get("text", "")))
    for k, v in sorted(res.analysed.items()):
        print("  analysed %s = %s" % (k, v))
    seen = set()
    for h in known_hits:
        key = (h["rule"], h["function"], h["construct"])
        if key in seen:
            continue
        seen.add(key)
        print("KNOWN-FINDING: property=%s %s [%s in %s: %s]" % (pid, h["what"], h["rule"], h["function"], h["construct"][:100]))
    replay = os.path.join(args.evidence_dir, "%s.violations.json" % pid)
    try:
        path = report.write_evidence(res, args.tier, wall, len(violations), known_hits, args.evidence_dir,
                                     ctx.stats(), selftest)
    except Exception:
        print("ANALYSIS-ERROR property=%s cannot write evidence" % pid)
        traceback.print_exc()
        return 2
    if violations:
        with open(replay, "w") as fh:
            json.dump({"property": pid, "violations": [f.to_json() for f in violations]}, fh, indent=1)
        for f in violations:
            print("  UNDISCHARGED %s %s in %s: %s\n      construct: %s%s" % (
                f.rule, f.loc, f.func, f.msg, f.construct[:160], ("\n      path: " + f.path) if f.path else ""))
        print("VIOLATION property=%s replay=%s" % (pid, replay))
        return 1
    if os.path.exists(replay):
        os.remove(replay)
    print("OK property=%s evidence=%s" % (pid, path))
    return 0


if __name__ == "__main__":
    sys.exit(main())
