"""E4 (structured form) - lexical dominance, path conditions and exit analysis for goto-free Python.

For structured code a statement S at index i of a block dominates everything at index > i of the same
block (and everything nested in those later statements): control can only get there by completing S.
Path conditions of a node are the tests of the enclosing `if`/`while`/conditional expressions/short-circuit
operators together with the negated tests of *early exits* that precede it in an enclosing block.
"""
import ast
from typing import List, Optional, Tuple

from .index import Program, FuncInfo

BLOCK_FIELDS = ("body", "orelse", "finalbody", "handlers")


def block_position(p: Program, node) -> Optional[Tuple[ast.AST, str, int]]:
    """(parent, field, index) of the statement `node` inside its block."""
    par = p.parent_of(node)
    if par is None:
        return None
    for field in ("body", "orelse", "finalbody"):
        blk = getattr(par, field, None)
        if isinstance(blk, list):
            for i, s in enumerate(blk):
                if s is node:
                    return par, field, i
    return None


def stmt_of(p: Program, node) -> ast.stmt:
    n = node
    while n is not None and not isinstance(n, ast.stmt):
        n = p.parent_of(n)
    return n


def stmt_chain(p: Program, node, fi: FuncInfo) -> List[Tuple[ast.AST, str, int, ast.stmt]]:
    """From the outermost block of fi down to the statement containing node:
    list of (block owner, field, index, statement)."""
    chain = []
    s = stmt_of(p, node)
    while s is not None and s is not fi.node:
        pos = block_position(p, s)
        if pos is None:
            par = p.parent_of(s)
            if isinstance(par, ast.ExceptHandler):
                # statement inside handler body
                for i, x in enumerate(par.body):
                    if x is s:
                        chain.append((par, "body", i, s))
                s = p.parent_of(par)
                continue
            if isinstance(par, ast.match_case) if hasattr(ast, "match_case") else False:
                s = p.parent_of(par)
                continue
            break
        chain.append((pos[0], pos[1], pos[2], s))
        nxt = pos[0]
        if isinstance(nxt, ast.ExceptHandler):
            nxt = p.parent_of(nxt)
        s = nxt if isinstance(nxt, ast.stmt) else None
        if nxt is fi.node:
            break
    chain.reverse()
    return chain


def always_exits(stmts: List[ast.stmt]) -> bool:
    """True if the statement list cannot complete normally (ends in return/raise/continue/break on all paths)."""
    for s in stmts:
        if isinstance(s, (ast.Return, ast.Raise, ast.Continue, ast.Break)):
            return True
        if isinstance(s, ast.If):
            if always_exits(s.body) and s.orelse and always_exits(s.orelse):
                return True
        if isinstance(s, (ast.With, ast.AsyncWith)):
            if always_exits(s.body):
                return True
        if isinstance(s, ast.Try):
            body_exits = always_exits(s.body) or (s.orelse and always_exits(s.orelse))
            if s.finalbody and always_exits(s.finalbody):
                return True
            if body_exits and all(always_exits(h.body) for h in s.handlers):
                return True
    return False


def always_returns(stmts: List[ast.stmt]) -> bool:
    """True if every normal path through the statement list ends in `return`/`raise` (no fall-off)."""
    for s in stmts:
        if isinstance(s, (ast.Return, ast.Raise)):
            return True
        if isinstance(s, ast.If):
            if always_returns(s.body) and s.orelse and always_returns(s.orelse):
                return True
        if isinstance(s, (ast.With, ast.AsyncWith)):
            if always_returns(s.body):
                return True
        if isinstance(s, ast.Try):
            if s.finalbody and always_returns(s.finalbody):
                return True
            body = always_returns(s.body) or (bool(s.orelse) and always_returns(s.orelse))
            if body and all(always_returns(h.body) for h in s.handlers):
                return True
        if isinstance(s, ast.While):
            if isinstance(s.test, ast.Constant) and s.test.value is True and \
                    not any(isinstance(n, ast.Break) for n in ast.walk(s)):
                return True
    return False


def conditions(p: Program, node, fi: FuncInfo) -> List[Tuple[ast.expr, bool]]:
    """Path conditions (test, polarity) that hold whenever `node` is evaluated."""
    conds: List[Tuple[ast.expr, bool]] = []
    # expression-level: IfExp / BoolOp / comprehension ifs
    n = node
    while n is not None and not isinstance(n, ast.stmt):
        par = p.parent_of(n)
        if isinstance(par, ast.IfExp):
            if n is par.body:
                conds.append((par.test, True))
            elif n is par.orelse:
                conds.append((par.test, False))
        elif isinstance(par, ast.BoolOp):
            idx = [i for i, v in enumerate(par.values) if v is n]
            if idx:
                for prev in par.values[:idx[0]]:
                    conds.append((prev, isinstance(par.op, ast.And)))
        elif isinstance(par, ast.comprehension):
            if n in par.ifs:
                for prev in par.ifs[:par.ifs.index(n)]:
                    conds.append((prev, True))
        elif isinstance(par, (ast.ListComp, ast.SetComp, ast.GeneratorExp, ast.DictComp)):
            if n is getattr(par, "elt", None) or n is getattr(par, "key", None) or n is getattr(par, "value", None):
                for g in par.generators:
                    for t in g.ifs:
                        conds.append((t, True))
        n = par
    for owner, field, idx, s in stmt_chain(p, node, fi):
        # early exits among the preceding siblings
        blk = getattr(owner, field)
        for prev in blk[:idx]:
            if isinstance(prev, ast.If):
                if always_exits(prev.body) and not (prev.orelse and always_exits(prev.orelse)):
                    conds.append((prev.test, False))
                elif prev.orelse and always_exits(prev.orelse) and not always_exits(prev.body):
                    conds.append((prev.test, True))
        # the owner itself
        if isinstance(owner, ast.If):
            conds.append((owner.test, field == "body"))
        elif isinstance(owner, ast.While) and field == "body":
            conds.append((owner.test, True))
    # the node may be the test of the statement itself -> no extra condition
    # `not X` holding is `X` not holding: hand out the positive test with the polarity flipped, so that an inverted
    # if/else reads the same as the original to every rule
    out = []
    for c, pol in conds:
        while isinstance(c, ast.UnaryOp) and isinstance(c.op, ast.Not):
            c, pol = c.operand, not pol
        out.append((c, pol))
    return out


def enclosing_conditions(p: Program, node, fi: FuncInfo) -> List[Tuple[ast.expr, bool]]:
    """Like conditions(), without the conditions that only stem from earlier early-exit guards
    (`if c: return` before the statement): the tests of the If/While statements that lexically enclose the node."""
    out = []
    for test, pol in conditions(p, node, fi):
        par, top = p.parent_of(test), test
        while isinstance(par, ast.UnaryOp) and isinstance(par.op, ast.Not):
            par, top = p.parent_of(par), par
        if isinstance(par, (ast.If, ast.While)) and par.test is top and not within(p, node, par):
            continue
        out.append((test, pol))
    return out


def dominates(p: Program, a, b, fi: FuncInfo) -> bool:
    """Statement containing `a` lexically dominates node `b`: every path reaching b has started a before.

    a must sit at block level of a block enclosing b, at a smaller index; or a and b are in the same
    statement with a evaluated first is *not* decided here (returns False)."""
    sa = stmt_of(p, a)
    chain_b = stmt_chain(p, b, fi)
    pos_a = block_position(p, sa)
    if pos_a is None:
        par = p.parent_of(sa)
        if isinstance(par, ast.ExceptHandler):
            pos_a = (par, "body", par.body.index(sa))
        else:
            return False
    # a must be unconditional relative to the block it sits in -> it is, by being a block-level statement.
    for owner, field, idx, s in chain_b:
        if owner is pos_a[0] and field == pos_a[1]:
            return pos_a[2] < idx
    # a nested in with/try-body chains that always execute
    chain_a = stmt_chain(p, a, fi)
    # find the deepest common block
    for (oa, fa, ia, sa_) in chain_a:
        for (ob, fb, ib, sb) in chain_b:
            if oa is ob and fa == fb:
                if ia < ib:
                    # a is inside statement at index ia; it always executes only if the nesting between
                    # that statement and a is made of `with` bodies / try bodies / plain blocks
                    return _always_executes_within(p, chain_a, (oa, fa, ia))
    return False


def _always_executes_within(p, chain_a, common) -> bool:
    seen = False
    for (o, f, i, s) in chain_a:
        if (o, f, i) == (common[0], common[1], common[2]) or (o is common[0] and f == common[1] and i == common[2]):
            seen = True
            continue
        if not seen:
            continue
        if isinstance(o, (ast.With, ast.AsyncWith)) and f == "body":
            # statement inside a with-body: executes if all previous body statements completed; accept only idx 0..:
            continue
        if isinstance(o, ast.Try) and f == "body":
            continue
        return False
    return True


def enclosing_loops(p: Program, node, fi: FuncInfo) -> List[ast.AST]:
    """Loops (for/while/comprehension) enclosing node inside fi, innermost first."""
    out = []
    for a in p.ancestors(node, stop=fi.node):
        if isinstance(a, (ast.For, ast.AsyncFor, ast.While)):
            # node must be in the loop body (not the iter / test / orelse)
            if _within_field(p, a, node, "body"):
                out.append(a)
        elif isinstance(a, (ast.ListComp, ast.SetComp, ast.GeneratorExp, ast.DictComp)):
            out.append(a)
    return out


def _within_field(p: Program, owner, node, field) -> bool:
    blk = getattr(owner, field, [])
    n = node
    while n is not None and n is not owner:
        par = p.parent_of(n)
        if par is owner:
            return any(n is s for s in blk)
        n = par
    return False


def within(p: Program, node, container) -> bool:
    n = node
    while n is not None:
        if n is container:
            return True
        n = p.parent_of(n)
    return False
