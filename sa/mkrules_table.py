#!/venv/bin/python
"""Regenerate DESIGN.md section 7.8 (rules as built) from the evidence files of the last run."""
import json
import os
import re

V = os.path.dirname(os.path.dirname(os.path.abspath(__file__)))
rows, tot_o, tot_d = [], 0, 0
for i in range(1, 21):
    pid = "C%02d" % i
    e = json.load(open(os.path.join(V, "evidence", "%s.json" % pid)))
    for rid, r in sorted(e["coverage"]["rules"].items()):
        rows.append("| %s | %d/%d | %s |" % (rid, r["discharged"], r["obligations"], r.get("text", "").replace("|", "/")))
        tot_o += r["obligations"]
        tot_d += r["discharged"]
txt = ("### 7.8 Rules as built (from the evidence files of the final clean-tree run)\n\nObligations discharged / raised on the current tree per rule; "
       "undischarged ones are exactly the known findings of 7.4.\nThe per-property paragraphs of section 4 describe the design-time intent; this table is what "
       "the checks decide today\n(%d obligations, %d discharged).\n\n| Rule | discharged | decides |\n|---|---|---|\n" % (tot_o, tot_d) + "\n".join(rows) + "\n\n")
p = os.path.join(V, "DESIGN.md")
s = open(p).read()
if "### 7.8 Rules as built" in s:
    s = re.sub(r"### 7\.8 Rules as built.*?(?=## 8\. Cost)", lambda m: txt, s, flags=re.S)
else:
    s = s.replace("## 8. Cost, order of work, threats to validity", txt + "## 8. Cost, order of work, threats to validity", 1)
open(p, "w").write(s)
print(tot_o, tot_d, len(rows))
