"""E7 - host-value taint: which expressions may denote objects owned by the traced program.

Sources: `<frame>.f_locals`, `<frame>.f_globals`, the `arg` parameter of the settrace callback, results of
eval(). Propagation is flow-insensitive and field-based (class, attribute), interprocedural through
parameters (resolved call graph) and returns, to a fixed point. Results of str/repr/len/type/id/isinstance/
hasattr are agent-owned (not tainted); copies made by tuple()/list()/dict() still hold host elements.
"""
import ast
from typing import Dict, List, Optional, Set, Tuple

from .index import Program, FuncInfo, norm
from .typesys import Types

SOURCE_ATTRS = {"f_locals", "f_globals"}
CLEAN_CALLS = {"builtins.str", "builtins.repr", "builtins.len", "builtins.type", "builtins.id", "builtins.isinstance",
               "builtins.hasattr", "builtins.bool", "builtins.int", "builtins.float", "builtins.format", "builtins.hash",
               "builtins.callable", "builtins.issubclass"}
CARRY_CALLS = {"builtins.tuple", "builtins.list", "builtins.dict", "builtins.set", "builtins.frozenset", "builtins.iter",
               "builtins.reversed", "builtins.sorted", "builtins.enumerate", "builtins.zip", "builtins.next",
               "builtins.getattr", "builtins.vars", "collections.OrderedDict", "builtins.filter", "builtins.map"}
CARRY_METHODS = {"get", "keys", "values", "items", "copy", "pop", "popitem", "setdefault", "__getitem__"}
SAFE_META = {"__class__", "__name__", "__qualname__", "__module__", "__mro__"}
MUTATING = {"append", "extend", "insert", "remove", "clear", "update", "setdefault", "sort", "reverse", "pop", "popitem",
            "popleft", "appendleft", "add", "discard", "send", "throw", "close", "read", "readline", "readlines", "seek",
            "write", "truncate", "__next__", "__setitem__", "__delitem__", "__setattr__", "__delattr__"}


class Op:
    __slots__ = ("fi", "node", "kind", "subject")

    def __init__(self, fi, node, kind, subject):
        self.fi = fi
        self.node = node
        self.kind = kind
        self.subject = subject      # the tainted sub-expression

    def __repr__(self):
        return "%s %s on %s @%s" % (self.kind, norm(self.node)[:60], norm(self.subject)[:40], self.fi.loc(self.node))


class Taint:
    def __init__(self, prog: Program, types: Types, entry_params: Optional[List[Tuple[FuncInfo, str]]] = None):
        self.p = prog
        self.t = types
        self.param_taint: Set[Tuple[str, str]] = set()
        self.field_taint: Set[Tuple[str, str]] = set()
        self.attr_name_taint: Set[str] = set()
        self.ret_taint: Set[str] = set()
        self._memo: Dict[Tuple[int, int], bool] = {}
        self._gen = 0
        for f, pname in (entry_params or []):
            self.param_taint.add((self.t.fkey(f), pname))
        self._fixpoint()

    # ------------------------------------------------------------------ core predicate
    def tainted(self, e: ast.expr, fi: FuncInfo, busy=frozenset()) -> bool:
        if e is None:
            return False
        if isinstance(e, ast.Constant):
            return False
        if isinstance(e, ast.Name):
            return self._name(e.id, fi, busy)
        if isinstance(e, ast.Attribute):
            if e.attr in SOURCE_ATTRS:
                return True
            if e.attr in SAFE_META:
                return False
            if self.tainted(e.value, fi, busy):
                return True
            return self._field(e, fi)
        if isinstance(e, ast.Subscript):
            return self.tainted(e.value, fi, busy)
        if isinstance(e, ast.Starred):
            return self.tainted(e.value, fi, busy)
        if isinstance(e, ast.Call):
            return self._call(e, fi, busy)
        if isinstance(e, (ast.Tuple, ast.List, ast.Set)):
            return any(self.tainted(x, fi, busy) for x in e.elts)
        if isinstance(e, ast.Dict):
            return any(self.tainted(x, fi, busy) for x in e.values if x is not None)
        if isinstance(e, ast.IfExp):
            return self.tainted(e.body, fi, busy) or self.tainted(e.orelse, fi, busy)
        if isinstance(e, ast.BoolOp):
            return any(self.tainted(x, fi, busy) for x in e.values)
        if isinstance(e, (ast.ListComp, ast.SetComp, ast.GeneratorExp)):
            return self.tainted(e.elt, fi, busy)
        if isinstance(e, ast.DictComp):
            return self.tainted(e.value, fi, busy)
        if isinstance(e, ast.NamedExpr):
            return self.tainted(e.value, fi, busy)
        return False

    def _name(self, name: str, fi: FuncInfo, busy) -> bool:
        f = fi
        while f is not None:
            binds = self.t.local_bindings(f, name)
            if binds:
                key = (self.t.fkey(f), name)
                if key in busy:
                    return False
                b2 = busy | {key}
                for kind, b in binds:
                    if kind == "param":
                        if (self.t.fkey(f), name) in self.param_taint:
                            return True
                    elif kind in ("assign", "for", "with"):
                        tgt, value, idx = b
                        if kind == "for" and isinstance(value, ast.Call) and norm(value.func) == "enumerate" and idx == 0:
                            continue      # the index of enumerate() is an int made by the agent
                        if value is not None and isinstance(idx, int):
                            part = self._tuple_part(value, idx, f, b2)
                            if part is not None:
                                if part:
                                    return True
                                continue
                        if value is not None and self.tainted(value, f, b2):
                            return True
                    elif kind == "ann" and b.value is not None and self.tainted(b.value, f, b2):
                        return True
                return False
            f = f.parent
        return False

    def _tuple_part(self, value, idx, f, busy):
        """Taint of element idx of a tuple-valued expression when its shape is known (None: unknown)."""
        if isinstance(value, ast.Tuple):
            if idx < len(value.elts) and not any(isinstance(x, ast.Starred) for x in value.elts):
                return self.tainted(value.elts[idx], f, busy)
            return None
        if isinstance(value, ast.Call):
            tg = self.t.resolve_call(value, f)
            if tg.repo and not tg.by_name and not tg.ext and not tg.unknown:
                res = False
                for g in tg.repo:
                    rets = [r for r in self.t.nodes_in(g, ast.Return)]
                    if not rets:
                        return None
                    for r in rets:
                        if not isinstance(r.value, ast.Tuple) or idx >= len(r.value.elts) or \
                                any(isinstance(x, ast.Starred) for x in r.value.elts):
                            return None
                        if self.tainted(r.value.elts[idx], g, busy):
                            res = True
                return res
        return None

    def _field(self, e: ast.Attribute, fi: FuncInfo) -> bool:
        bt = self.t.type_of(e.value, fi)
        known = False
        for t in bt:
            if t[0] == "inst":
                known = True
                c = self.p.classes.get(t[1])
                if c is None:
                    continue
                # property getter returning a tainted field
                g = c.lookup(e.attr)
                if g is not None and g.is_property:
                    if self.t.fkey(g) in self.ret_taint:
                        return True
                    for o in self.t.overrides(t[1], e.attr):
                        if self.t.fkey(o) in self.ret_taint:
                            return True
                    continue
                for k in c.mro:
                    attr = e.attr
                    if attr.startswith("__") and not attr.endswith("__"):
                        kk = fi.cls or (fi.parent.cls if fi.parent else None)
                        attr = kk.mangle(attr) if kk else attr
                    if (k.qname, attr) in self.field_taint:
                        return True
            elif t[0] in ("mod", "clsobj", "ext", "extobj", "seq", "map", "tuple", "none"):
                known = True
        if not known:
            return e.attr in self.attr_name_taint
        return False

    def _call(self, e: ast.Call, fi: FuncInfo, busy) -> bool:
        tg = self.t.resolve_call(e, fi)
        if any(x in ("builtins.eval",) for x in tg.ext):
            return True
        if "builtins.getattr" in tg.ext and len(e.args) >= 2 and isinstance(e.args[1], ast.Constant) \
                and e.args[1].value in SOURCE_ATTRS:
            return True     # getattr(frame, 'f_globals', None) is the same source as frame.f_globals
        if any(x in CLEAN_CALLS for x in tg.ext):
            return False
        if any(x in CARRY_CALLS for x in tg.ext):
            return any(self.tainted(a, fi, busy) for a in e.args)
        if isinstance(e.func, ast.Attribute) and not tg.repo:
            if self.tainted(e.func.value, fi, busy):
                return e.func.attr in CARRY_METHODS or e.func.attr.startswith("__")
            return False
        for g in tg.repo:
            if self.t.fkey(g) in self.ret_taint:
                return True
        return False

    # ------------------------------------------------------------------ fixed point
    def _fixpoint(self):
        funcs = list(self.p.functions.values())
        for rnd in range(40):
            before = (len(self.param_taint), len(self.field_taint), len(self.ret_taint))
            for fi in funcs:
                # calls: taint flows into parameters
                for call in self.t.calls_in(fi):
                    tg = self.t.resolve_call(call, fi)
                    if tg.by_name:
                        continue
                    for g in tg.repo:
                        for pname, arg in self.t.bind_args(g, call).items():
                            if (self.t.fkey(g), pname) not in self.param_taint and self.tainted(arg, fi):
                                self.param_taint.add((self.t.fkey(g), pname))
                    # callables handed over as values: consumer(pop) style callbacks
                    if tg.unknown and isinstance(call.func, ast.Name):
                        for cf, c2 in self.t.callers.get(self.t.fkey(fi), []):
                            arg = self.t.bind_args(fi, c2).get(call.func.id)
                            if arg is None:
                                continue
                            for tt in self.t.type_of(arg, cf):
                                if tt[0] in ("bound", "func"):
                                    g = self.p.functions.get(tt[1])
                                    if g is None:
                                        continue
                                    for pname, a2 in self.t.bind_args(g, call).items():
                                        if (self.t.fkey(g), pname) not in self.param_taint and self.tainted(a2, fi):
                                            self.param_taint.add((self.t.fkey(g), pname))
                # stores into fields
                for n in self.t.nodes_in(fi, (ast.Assign, ast.AnnAssign)):
                    tgts = n.targets if isinstance(n, ast.Assign) else [n.target]
                    val = n.value
                    if val is None:
                        continue
                    for tg_ in tgts:
                        if isinstance(tg_, ast.Attribute) and isinstance(tg_.value, ast.Name):
                            cls = None
                            if tg_.value.id == "self" and fi.cls is not None:
                                cls = fi.cls
                                attr = cls.mangle(tg_.attr)
                            else:
                                for tt in self.t.type_of(tg_.value, fi):
                                    if tt[0] == "inst":
                                        cls = self.p.classes.get(tt[1])
                                attr = tg_.attr
                            if self.tainted(val, fi):
                                if cls is not None:
                                    self.field_taint.add((cls.qname, attr))
                                self.attr_name_taint.add(tg_.attr)
                # returns
                k = self.t.fkey(fi)
                if k not in self.ret_taint:
                    for r in self.t.nodes_in(fi, (ast.Return, ast.Yield)):
                        if r.value is not None and self.tainted(r.value, fi):
                            self.ret_taint.add(k)
                            break
            if (len(self.param_taint), len(self.field_taint), len(self.ret_taint)) == before:
                break

    # ------------------------------------------------------------------ operations on tainted values
    def ops(self, fi: FuncInfo) -> List[Op]:
        out: List[Op] = []
        T = lambda x: self.tainted(x, fi)   # noqa: E731
        for n in self.t.nodes_in(fi):
            if isinstance(n, ast.Call):
                tg = self.t.resolve_call(n, fi)
                bi = [x for x in tg.ext if x.startswith("builtins.")]
                if bi and n.args and T(n.args[0]):
                    name = bi[0].split(".", 1)[1]
                    if name in ("str", "repr", "len", "tuple", "list", "dict", "set", "frozenset", "next", "iter", "float", "int",
                                "format", "sorted", "hash", "bool", "reversed", "enumerate", "vars", "dir", "sum", "min", "max",
                                "setattr", "delattr", "getattr", "isinstance", "hasattr"):
                        out.append(Op(fi, n, "builtin:" + name, n.args[0]))
                if isinstance(n.func, ast.Attribute) and not tg.repo and T(n.func.value):
                    out.append(Op(fi, n, "method:" + n.func.attr, n.func.value))
                # a library function given a host value (itertools.islice(value, n), copy.copy(value), json.dumps(value)): it iterates /
                # copies / renders the value, i.e. runs its code, later or now
                lib = [x for x in tg.ext if not x.startswith("builtins.") and not x.startswith("method:") and not x.startswith("call:") and "." in x
                       and not x.startswith("logging.") and not x.startswith("deepproto.")]
                if lib and not tg.repo and not bi:
                    for a_ in n.args:
                        if T(a_):
                            out.append(Op(fi, n, "extcall:" + lib[0], a_))
                            break
            elif isinstance(n, ast.Attribute) and isinstance(n.ctx, ast.Load):
                if n.attr in SOURCE_ATTRS or (n.attr in SAFE_META and n.attr != "__class__"):
                    continue
                par = self.p.parent_of(n)
                if isinstance(par, ast.Call) and par.func is n:
                    continue    # method call handled above
                if T(n.value):
                    out.append(Op(fi, n, "getattr:" + n.attr, n.value))
            elif isinstance(n, ast.Attribute) and isinstance(n.ctx, (ast.Store, ast.Del)):
                if T(n.value):
                    out.append(Op(fi, n, "mutate:setattr", n.value))
            elif isinstance(n, ast.Subscript):
                if T(n.value):
                    if isinstance(n.ctx, ast.Load):
                        out.append(Op(fi, n, "getitem", n.value))
                    else:
                        out.append(Op(fi, n, "mutate:setitem", n.value))
            elif isinstance(n, ast.Compare):
                for op, c in zip(n.ops, n.comparators):
                    if isinstance(op, (ast.In, ast.NotIn)) and T(c):
                        out.append(Op(fi, n, "contains", c))
                    elif isinstance(op, (ast.Eq, ast.NotEq, ast.Lt, ast.Gt, ast.LtE, ast.GtE)) and (T(c) or T(n.left)):
                        out.append(Op(fi, n, "compare", c if T(c) else n.left))
            elif isinstance(n, (ast.For, ast.AsyncFor)):
                if T(n.iter):
                    out.append(Op(fi, n.iter, "iterate", n.iter))
            elif isinstance(n, ast.comprehension):
                if T(n.iter):
                    out.append(Op(fi, n.iter, "iterate", n.iter))
            elif isinstance(n, ast.BinOp) and isinstance(n.op, ast.Mod):
                if isinstance(n.left, ast.Constant) and isinstance(n.left.value, str) and T(n.right):
                    out.append(Op(fi, n, "format", n.right))
            elif isinstance(n, ast.JoinedStr):
                for v in n.values:
                    if isinstance(v, ast.FormattedValue) and T(v.value):
                        out.append(Op(fi, n, "format", v.value))
            # truth value of a host value: runs its __bool__ / __len__ and makes what follows depend on its content
            tests = []
            if isinstance(n, (ast.If, ast.While, ast.IfExp, ast.Assert)):
                tests.append(n.test)
            elif isinstance(n, ast.comprehension):
                tests.extend(n.ifs)
            elif isinstance(n, ast.BoolOp):
                par = self.p.parent_of(n)
                in_test = isinstance(par, (ast.If, ast.While, ast.IfExp, ast.Assert)) and par.test is n or \
                    isinstance(par, (ast.BoolOp, ast.UnaryOp)) or (isinstance(par, ast.comprehension) and n in par.ifs)
                if not in_test:
                    tests.extend(n.values[:-1])     # `a or b` as a value: every operand but the last is truth-tested
            elif isinstance(n, ast.UnaryOp) and isinstance(n.op, ast.Not):
                par = self.p.parent_of(n)
                in_test = isinstance(par, (ast.If, ast.While, ast.IfExp, ast.Assert)) and par.test is n or \
                    isinstance(par, (ast.BoolOp, ast.UnaryOp)) or (isinstance(par, ast.comprehension) and n in par.ifs)
                if not in_test:
                    tests.append(n.operand)
            for tst in tests:
                for leaf in _truth_leaves(tst):
                    if T(leaf):
                        out.append(Op(fi, leaf, "truth", leaf))
        return out


def _truth_leaves(e):
    if isinstance(e, ast.BoolOp):
        for v in e.values:
            yield from _truth_leaves(v)
    elif isinstance(e, ast.UnaryOp) and isinstance(e.op, ast.Not):
        yield from _truth_leaves(e.operand)
    elif isinstance(e, (ast.Compare, ast.Constant)):
        return
    else:
        yield e
